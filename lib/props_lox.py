"""System composition (spec/Lox.tla): text -> reference driver over the generated state machine -> generated parser.
Not a property of its own: it is run inside C19 (the numbers the lexer tables emit are the keys of the parser tables) and
its three edges are reported there."""
import json, os, random, itertools, subprocess
from vlib import *
import grams, pcase, lcase, lgrams, pfamily, lfamily
from lcase import lit, cls, cat, alt, opt, star, plus, anyc
from lgrams import spec, tok, frag

WSD = frag(plus(cls([" "])), ["discard"])


def combos():
    """(id, lexer spec, grammar text over the lexer's token names, runes texts are built from)"""
    D = cls(["0-9"])
    out = []
    out.append(("calc", spec("calc", [tok("NUM", plus(D)), tok("PLUS", lit("+")), tok("STAR", lit("*")), tok("LP", lit("(")), tok("RP", lit(")")), WSD]),
                "e = e PLUS t | t\nt = t STAR f | f\nf = NUM | LP e RP", "1+*() "))
    out.append(("kw-id", spec("kw-id", [tok("IF", lit("if")), tok("ID", plus(cls(["a-z"]))), tok("SEMI", lit(";")), WSD]),
                "s = st+\nst = IF ID SEMI | ID SEMI", "if; x"))
    out.append(("interp", spec("interp", [tok("NUM", plus(D)), tok("PLUS", lit("+")), tok("SB", lit('"'), ["push", "Str"]), tok("CC", lit("}"), ["pop"])],
                               modes=[("Str", [tok("SE", lit('"'), ["pop"]), tok("CH", plus(cls(["a-z"]))), tok("OC", lit("{"), ["push", ""])])]),
                "e = e PLUS a | a\na = NUM | SB part* SE\npart = CH | OC e CC", '1+"a{}'))
    out.append(("frag-emit", spec("frag-emit", [tok("NUM", lit("#")), frag(plus(D), ["emit", "NUM"]), tok("COMMA", lit(",")), WSD]),
                "s = @list(NUM, COMMA)", "1#, "))
    out.append(("recover", spec("recover", [tok("ID", plus(cls(["a-z"]))), tok("SEMI", lit(";")), tok("EQ", lit("=")), frag(plus(cls([" ", 0x0A])), ["discard"])]),
                "s = st*\nst = ID EQ ID SEMI | @error SEMI", "a=;#\n"))
    out.append(("list-opt", spec("list-opt", [tok("LB", lit("[")), tok("RB", lit("]")), tok("N", plus(D)), tok("C", lit(",")), WSD]),
                "v = LB @list(v, C)? RB | N", "[]1, "))
    out.append(("mode-tokens-first", spec("mode-tokens-first", [tok("O", lit("<"), ["push", "Tag"]), tok("T", plus(cls(["a-z"])))],
                                          modes=[("Tag", [tok("C", lit(">"), ["pop"]), tok("NAME", plus(cls(["a-z"]))), tok("EQ", lit("="))])]),
                "d = item*\nitem = T | O NAME attr* C\nattr = NAME EQ NAME", "<>a="))
    out.append(("accum", spec("accum", [tok("ID", plus(cls(["a-z"]))), frag(lit("'"), ["push", "Lit"]), WSD],
                              modes=[("Lit", [tok("STR", lit("'"), ["pop"]), frag(cls(["'", 0x0A], neg=True))])]),
                "s = ID STR | STR+", "a' x"))
    out.append(("prec", spec("prec", [tok("N", plus(D)), tok("P", lit("+")), tok("M", lit("*")), tok("POW", lit("^")), WSD]),
                "e = e P e @left(1) | e M e @left(2) | e POW e @left(3) | N", "1+*^ "))
    out.append(("longest", spec("longest", [tok("LT", lit("<")), tok("LE", lit("<=")), tok("SHL", lit("<<")), tok("EQ", lit("=")), tok("N", plus(D))]),
                "s = N op N\nop = LT | LE | SHL | EQ | LT EQ", "<=1"))
    return out


def render_go(case, pkg):
    gosrc, peek, nopeek, ms = pcase.render_go(case, pkg)
    gosrc += "\n".join([
        "type SM = _LexerStateMachine", "", "func NewSM() *SM { return new(_LexerStateMachine) }", "",
        "func RunLex(next func() int, maxCalls int) (res hk.RunResult) {",
        "\trec := &hk.Rec{MaxCall: maxCalls}", "\tp := &Parser{rec: rec}",
        "\tlex := &hk.FuncLexer{Next: next, R: rec, Peek: p.peek}",
        "\tdefer func() {", "\t\tif e := recover(); e != nil {",
        "\t\t\tif _, ok := e.(hk.Budget); ok {", "\t\t\t\tres.Budget = true",
        "\t\t\t} else {", "\t\t\t\tres.Panic = hk.PanicString(e)", "\t\t\t}", "\t\t}", "\t\tres.Events = rec.Events", "\t}()",
        "\tok := p.parse(lex)", "\trec.Return(ok)", "\tres.Ok = ok", "\treturn", "}", ""])
    return gosrc, peek, nopeek, ms


RUNNER = '''package main

import (
	"bufio"
	"encoding/json"
	"fmt"
	gotoken "go/token"
	"os"
	"unicode/utf8"

	"github.com/dcaiafa/loxlex/simplelexer"
	"xv/hk"
%(imports)s
)

type subject struct {
	New func() simplelexer.StateMachine
	Run func(next func() int, maxCalls int) hk.RunResult
}

var subjects = map[string]subject{
%(table)s
}

type job struct {
	Case     string  `json:"case"`
	Alphabet []int   `json:"alphabet"`
	MaxLen   int     `json:"maxlen"`
	Extra    [][]int `json:"extra"`
}

type outRec struct {
	Case   string   `json:"case"`
	In     []int    `json:"in"`
	Chars  [][2]int `json:"chars"`
	Reads  []int    `json:"reads"`  // terminal numbers the parser pulled, in order (EOF included when it was pulled)
	Toks   [][3]int `json:"toks"`   // ty, start, end of every token the driver returned
	Ok     bool     `json:"ok"`
	Clean  bool     `json:"clean"`  // no Error value was delivered to an action
	Panic  string   `json:"panic"`
	Budget bool     `json:"budget"`
}

func runOne(s subject, cs string, in []int) (o outRec) {
	o.Case = cs
	o.In = append([]int{}, in...)
	var data []byte
	for _, r := range in {
		data = utf8.AppendRune(data, rune(r))
	}
	o.Chars = [][2]int{}
	for i := 0; i < len(data); {
		r, w := utf8.DecodeRune(data[i:])
		o.Chars = append(o.Chars, [2]int{int(r), w})
		i += w
	}
	o.Reads = []int{}
	o.Toks = [][3]int{}
	fset := gotoken.NewFileSet()
	file := fset.AddFile("in", -1, len(data))
	lx := simplelexer.New(simplelexer.Config{StateMachine: s.New(), File: file, Input: data})
	nread := 0
	next := func() int {
		nread++
		if nread > 4*len(data)+16 {
			panic(hk.Budget{Msg: "lexer reads"})
		}
		tok, ty := lx.ReadToken()
		start := int(tok.Pos) - file.Base()
		o.Toks = append(o.Toks, [3]int{ty, start, start + len(tok.Str)})
		o.Reads = append(o.Reads, ty)
		return ty
	}
	r := s.Run(next, 60*(len(data)+1)+60)
	o.Ok, o.Panic, o.Budget = r.Ok, r.Panic, r.Budget
	o.Clean = true
	for _, e := range r.Events {
		if e.E == "act" {
			for _, a := range e.Args {
				if a.K == "x" {
					o.Clean = false
				}
			}
		}
	}
	return
}

func main() {
	jf, _ := os.Open(os.Args[1])
	var jobs []job
	if err := json.NewDecoder(jf).Decode(&jobs); err != nil {
		fmt.Fprintln(os.Stderr, err)
		os.Exit(2)
	}
	out := bufio.NewWriterSize(os.Stdout, 1<<20)
	enc := json.NewEncoder(out)
	for _, j := range jobs {
		s, ok := subjects[j.Case]
		if !ok {
			fmt.Fprintln(os.Stderr, "unknown case", j.Case)
			os.Exit(2)
		}
		var rec func(cur []int, n int)
		rec = func(cur []int, n int) {
			enc.Encode(runOne(s, j.Case, cur))
			if n == 0 {
				return
			}
			for _, a := range j.Alphabet {
				rec(append(append([]int{}, cur...), a), n-1)
			}
		}
		if j.MaxLen >= 0 {
			rec([]int{}, j.MaxLen)
		}
		for _, e := range j.Extra {
			enc.Encode(runOne(s, j.Case, e))
		}
	}
	out.Flush()
}
'''


def system_composition(rep, sc, quick, rng, lox):
    """returns coverage fields; failures are added to rep"""
    cases = []
    for cid, lspec, gtext, chars in combos():
        lspec = json.loads(json.dumps(lspec))
        names = lcase.token_names(lspec)
        g = grams.gram("sys-" + cid, gtext, bounds=False, terms0=names)
        if g["terms"] != names:
            raise Infra("combo %s: the grammar mentions a terminal the lexer does not declare: %s" % (cid, g["terms"][len(names):]))
        g["lspec"] = lspec
        g["chars"] = [ord(c) for c in chars]
        cases.append(g)
    mod = new_subject_module(sc, "xvs", with_simplelexer=True)

    def one(arg):
        n, c = arg
        pkg = "s%03d" % n
        d = os.path.join(mod, pkg)
        os.makedirs(d, exist_ok=True)
        gosrc, peek, nopeek, ms = render_go(c, pkg)
        ptext = pcase.render_lox(c)
        ptext = ptext[ptext.index("@parser"):]
        open(os.path.join(d, "g.lox"), "w").write(lcase.render_lox(c["lspec"], with_parser=False) + "\n" + ptext)
        open(os.path.join(d, "parser.go"), "w").write(gosrc)
        open(os.path.join(d, "peek.go"), "w").write(peek)
        open(os.path.join(d, "nopeek.go"), "w").write(nopeek)
        p = subprocess.run([lox, d], cwd=mod, env=GOENV, stdout=subprocess.PIPE, stderr=subprocess.PIPE, timeout=120)
        g = {"exit": p.returncode, "stderr": p.stderr.decode(errors="replace"), "dir": d, "pkg": pkg, "methods": ms, "ok": p.returncode == 0}
        if g["ok"]:
            g["tables"] = pcase.scrape_parser(os.path.join(d, "parser.gen.go"))
            byname = {m["name"]: m["id"] for m in ms}
            for s in g["tables"]["shapes"]:
                s["mid"] = byname.get(s["m"], -1)
            g["ltables"] = lcase.scrape_lexer(os.path.join(d, "lexer.gen.go"))
            g["base"] = lcase.scrape_base(os.path.join(d, "base.gen.go"))
        c["gen"] = g
    pmap(one, list(enumerate(cases)))
    acc = []
    for c in cases:
        if not c["gen"]["ok"]:
            rep.failure("c19.system-rejected:" + c["id"], "lox rejected a lexer+parser specification: " + c["gen"]["stderr"][-300:],
                        {"id": c["id"], "lox": open(os.path.join(c["gen"]["dir"], "g.lox")).read()})
        else:
            acc.append(c)
    if not acc:
        return {}
    imports = "\n".join('\t%s "xv/%s"' % (c["gen"]["pkg"], c["gen"]["pkg"]) for c in acc)
    table = "\n".join('\t"%(p)s": {New: func() simplelexer.StateMachine { return %(p)s.NewSM() }, Run: %(p)s.RunLex},' % {"p": c["gen"]["pkg"]} for c in acc)
    d = os.path.join(mod, "runs")
    os.makedirs(d, exist_ok=True)
    open(os.path.join(d, "main.go"), "w").write(RUNNER % {"imports": imports, "table": table})
    runner = os.path.join(sc, "bin", "runs")
    os.makedirs(os.path.dirname(runner), exist_ok=True)
    p = run(["go", "build", "-tags", "peekstate", "-o", runner, "./runs"], cwd=mod, check=False, timeout=900)
    if p.returncode != 0:
        raise Infra("system subjects do not build:\n" + p.stderr.decode()[-3000:])
    K = 4 if quick else 5
    jobs = []
    for c in acc:
        extra = []
        for _ in range(40 if quick else 400):
            n = rng.randint(K + 1, 14)
            extra.append([rng.choice(c["chars"]) for _ in range(n)])
        jobs.append({"case": c["gen"]["pkg"], "alphabet": c["chars"], "maxlen": K, "extra": extra})
    recs = []
    for j in jobs:
        jf = os.path.join(sc, "sysjob-%s.json" % j["case"])
        json.dump([j], open(jf, "w"))
    def runjob(j):
        jf = os.path.join(sc, "sysjob-%s.json" % j["case"])
        p = subprocess.run([runner, jf], stdout=subprocess.PIPE, stderr=subprocess.PIPE, timeout=900)
        if p.returncode != 0:
            raise Infra("system runner failed: " + p.stderr.decode()[-1500:])
        return [json.loads(l) for l in p.stdout.decode().splitlines() if l.strip()]
    for rs in pmap(runjob, jobs):
        recs += rs
    idx = {c["gen"]["pkg"]: i for i, c in enumerate(acc)}
    tcases = []
    for c in acc:
        t = pfamily.tlc_case(c)
        t["alphabet"] = [1] + t["alphabet"]
        lc = dict(c["lspec"]); lc["gen"] = {"tables": c["gen"]["ltables"]}
        tl = lfamily.tlc_lcase(lc)
        t["ltables"] = tl["tables"]
        t["lmodes"] = tl["modes"]
        t["lmacros"] = tl["macros"]
        t["chars"] = c["chars"]
        t["maxchars"] = 3 if quick else 4
        tcases.append(t)
        # the numbering the composition relies on: constants = declaration order of the @lexer section
        want = [["EOF", 0], ["ERROR", 1]] + [[n, i + 2] for i, n in enumerate(c["terms"])]
        if c["gen"]["base"]["consts"] != want:
            rep.failure("c19.system-numbering:" + c["id"], "constants %s, declaration order gives %s" % (c["gen"]["base"]["consts"], want), {"id": c["id"]})
    truns = [{"c": idx[r["case"]] + 1, "chars": r["chars"], "reads": r["reads"], "ok": r["ok"], "clean": r["clean"],
              "panic": bool(r["panic"]), "budget": r["budget"]} for r in recs]
    sd = spec_dir(sc, "spec-lox")
    json.dump(tcases, open(os.path.join(sd, "cases.json"), "w"))
    json.dump(truns, open(os.path.join(sd, "runs.json"), "w"))
    json.dump({"track": False, "maxlen": 1000000, "explore": True}, open(os.path.join(sd, "mcfg.json"), "w"))
    r = tlc(sc, "Lox", cfg="Lox.cfg", cwd=sd, timeout=2400, heap="12g")
    if r.violation and "Temporal" in r.violation:
        raise Infra("Lox.tla: the composite does not terminate on some text (not reproduced on the real code): " + r.violation)
    tlc_must(r, "Lox")
    # TLC evaluates an action more than once (successor generation, ENABLED for the fairness condition): de-duplicate its lines
    seenl, ul = set(), []
    for l in r.lines:
        key = json.dumps(l, sort_keys=True)
        if key not in seenl:
            seenl.add(key)
            ul.append(l)
    r.lines = ul
    judged = len([l for l in r.lines if l.get("lox") == "judged"])
    if judged != len(truns):
        raise Infra("Lox.tla judged %d of %d real runs" % (judged, len(truns)))
    nobs = ntr = nmc = 0
    for l in r.lines:
        k = l.get("lox")
        if k == "obs-bad":
            nobs += 1
            run_, c = recs[l["r"]], acc[l["c"]]
            rep.failure("c19.system-run-differs-from-definition:" + c["id"],
                        "specification %s, text %r: the parser pulled terminals %s and returned %s (clean %s); the rules give %s, sentence: %s" % (
                            c["id"], "".join(chr(x) for x in run_["in"]), l["reads"], l["ok"], l["clean"], l["def"], l["sentence"]),
                        {"id": c["id"], "lox": open(os.path.join(c["gen"]["dir"], "g.lox")).read(), "text": run_["in"]})
        elif k == "trace-bad":
            ntr += 1
        elif k == "mc-bad":
            nmc += 1
    if ntr:
        ex = [l for l in r.lines if l.get("lox") == "trace-bad"][0]
        rep.note("DRIFT: %d of %d system runs are not behaviours of Lox.tla (e.g. %s text %s: real %s/%s, model %s/%s)" % (
            ntr, len(truns), acc[ex["c"]]["id"], recs[ex["r"]]["in"], ex["reads"], ex["ok"], ex["model"], ex["pc"]))
    if nmc:
        # the model disagrees with the definition on some text: replay it on the real program before saying anything
        for l in [x for x in r.lines if x.get("lox") == "mc-bad"][:20]:
            c = acc[l["c"]]
            jf = os.path.join(sc, "sysreplay.json")
            json.dump([{"case": c["gen"]["pkg"], "alphabet": [], "maxlen": -1, "extra": [l["text"]]}], open(jf, "w"))
            p = subprocess.run([runner, jf], stdout=subprocess.PIPE, stderr=subprocess.PIPE, timeout=120)
            rr = [json.loads(x) for x in p.stdout.decode().splitlines() if x.strip()]
            real_clean_accept = bool(rr and rr[0]["ok"] and rr[0]["clean"])
            if rr and (real_clean_accept != l["sentence"] or rr[0]["panic"] or rr[0]["budget"]):
                rep.failure("c19.system-run-differs-from-definition:" + c["id"],
                            "specification %s, text %r (found by the model): the real program returns %s (clean %s, panic %r), sentence: %s" % (
                                c["id"], "".join(chr(x) for x in l["text"]), rr[0]["ok"], rr[0]["clean"], rr[0]["panic"], l["sentence"]),
                            {"id": c["id"], "lox": open(os.path.join(c["gen"]["dir"], "g.lox")).read(), "text": l["text"]})
            else:
                rep.note("Lox.tla disagrees with the definition on %s text %s but the real program does not (model drift)" % (c["id"], l["text"]))
    return {"system_specs": len(acc), "system_runs": len(truns), "system_runs_differing": nobs, "system_trace_drift": ntr,
            "system_model_states": r.distinct, "system_model_transitions": r.states, "system_model_bad": nmc,
            "system_texts_explored_bound": tcases[0]["maxchars"]}


def lox_dev(tier):
    """./check LOX quick : the composition alone (development aid, not a registered property)"""
    rep = Report("LOX", tier)
    sc = scratch("lox")
    lox = build_lox(sc)
    cov = system_composition(rep, sc, tier == "quick", random.Random(seed()), lox)
    rep.coverage = dict(cov, evaluations=cov.get("system_runs", 0), distinct_nontrivial=cov.get("system_specs", 0), states=cov.get("system_model_states", 0),
                        transitions=cov.get("system_model_transitions", 0), rule="system composition")
    rep.assumptions = ["TLC/SANY"]
    return rep.finish("model_checking")
