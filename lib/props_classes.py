"""C15: character classes and literals denote exact code-point sets."""
import json, os, random, itertools
from vlib import *
import lcase, lgrams
from lcase import *
from lfamily import *
import props_lexer as PL


def rang3_part(rep, sc, quick, rng):
    U = 5 if quick else 7
    # (1) the model itself, exhaustively
    sd = spec_dir(sc, "spec-r3")
    open(os.path.join(sd, "Rang3MC.cfg"), "w").write(
        "SPECIFICATION Spec\nCONSTANT U = %d\nINVARIANTS ExactUnion PiecesDisjoint FinalDisjoint Bounded\n"
        "PROPERTIES EventExact Terminates\nCHECK_DEADLOCK FALSE\n" % U)
    r1 = tlc(sc, "Rang3", cfg="Rang3MC.cfg", cwd=sd, timeout=2400)
    if r1.violation:
        # a violated invariant of the model is a statement about the algorithm as modelled; the binding below decides
        rep.failure("c15.rang3-model-violation", "Rang3.tla: " + r1.violation, {"tlc": r1.out[-3000:]})
    else:
        tlc_must(r1, "Rang3")
    # (2) the real code on the same lists, three placements
    ranges = [(b, e) for b in range(U + 1) for e in range(b, U + 1)]
    lists = [[r] for r in ranges] + [[r, s] for r in ranges for s in ranges]
    triples = [[r, s, t] for r in ranges for s in ranges for t in ranges]
    if quick:
        rng.shuffle(triples)
        triples = triples[:3000]
    lists += triples
    cases, meta = [], []
    shifts = [0, 0x4E00, MAXRUNE - U]
    for i, a in enumerate(lists):
        sh = shifts[i % 3]
        b = lists[(i * 7 + 3) % len(lists)]
        cases.append({"a": [[x + sh, y + sh] for x, y in a], "b": [[x + sh, y + sh] for x, y in b]})
        meta.append((a, b, sh))
    # Subtract / Flatten on every pair of lists of <= 2 ranges over a 5-point universe, at the two ends of the code space
    small = [(b, e) for b in range(5) for e in range(b, 5)]
    small_lists = [[r] for r in small] + [[r, s] for r in small for s in small]
    pairs = [(a, b) for a in small_lists for b in small_lists]
    if quick:
        rng.shuffle(pairs)
        pairs = pairs[:4000]
    for i, (a, b) in enumerate(pairs):
        sh = (0, MAXRUNE - 4)[i % 2]
        cases.append({"a": [[x + sh, y + sh] for x, y in a], "b": [[x + sh, y + sh] for x, y in b]})
        meta.append((a, b, sh))
    tool = build_tool(sc, "rang3t")
    cf = os.path.join(sc, "r3cases.json")
    json.dump(cases, open(cf, "w"))
    outs = json.loads(run([tool, cf], timeout=600).stdout.decode())
    runs = []
    for (a, b, sh), o in zip(meta, outs):
        un = lambda r: [r[0] - sh, r[1] - sh]
        runs.append({"a": [list(x) for x in a], "b": [list(x) for x in b],
                     "events": [[un(x) for x in ev] for ev in o["events"]],
                     "flat": [un(x) for x in o["flat"]], "flatev": [[un(x) for x in ev] for ev in o["flatev"]],
                     "sub": [un(x) for x in o["sub"]], "panic": o["panic"], "shift": sh})
    json.dump(runs, open(os.path.join(sd, "rang3_runs.json"), "w"))
    open(os.path.join(sd, "Rang3Trace.cfg"), "w").write("SPECIFICATION TSpec\nCONSTANT U = %d\nCHECK_DEADLOCK FALSE\n" % U)
    r2 = tlc(sc, "Rang3Trace", cfg="Rang3Trace.cfg", cwd=sd, timeout=2400)
    tlc_must(r2, "Rang3Trace")
    if r2.violation or r2.distinct != 2 * len(runs):
        raise Infra("Rang3Trace incomplete %s %d/%d" % (r2.violation, r2.distinct, 2 * len(runs)))
    for b in [l for l in r2.lines if l.get("r3") == "bad"]:
        run_ = runs[b["k"]]
        what = "normalize-events" if not b["evOk"] else ("flatten" if not (b["flatOk"] and b["flatEvOk"]) else ("subtract" if not b["subOk"] else "panic"))
        rep.failure("c15.rang3-%s" % what, "rang3 on %s (minus %s, shifted by %d): %s" % (run_["a"], run_["b"], run_["shift"], json.dumps(b)[:300]),
                    {"a": run_["a"], "b": run_["b"], "shift": run_["shift"], "real": run_, "model_events": b.get("model")})
    return r1, r2, len(runs)


def class_cases(rng, n):
    """single-class / single-literal token rules covering the escapes, negation, difference, dot, overlaps"""
    out = []
    B = [0, 1, 0x7F, 0x80, 0x7FF, 0x800, 0xD7FF, 0xE000, 0xFFFC, 0xFFFD, 0xFFFE, 0xFFFF, 0x10000, 0x10FFFE, 0x10FFFF]
    out.append(lgrams.spec("cls-escapes", [lgrams.tok("E", plus(cls([0x0A, 0x0D, 0x09, 0x5C, 0x2D]))), lgrams.tok("O", plus(cls(["a-z"])))]))
    out.append(lgrams.spec("lit-escapes", [lgrams.tok("E", lit([0x0A, 0x0D, 0x09, 0x5C, 0x27, 0x2D])), lgrams.tok("O", plus(cls(["a-z"])))]))
    out.append(lgrams.spec("cls-u-forms", [lgrams.tok("A", cls([[0xE9, 0xE9], [0x4E16, 0x4E16], [0x1F600, 0x1F600]])), lgrams.tok("L", lit([0xE9, 0x4E16, 0x1F600, 0x41]))]))
    out.append(lgrams.spec("cls-neg-edges", [lgrams.tok("N", plus(cls([[0, 0x1F], [0x7F, 0x7F]], neg=True))), lgrams.tok("C", plus(cls([[0, 0x1F]])))]))
    out.append(lgrams.spec("cls-neg-max", [lgrams.tok("N", cls([[0x10FFFF, 0x10FFFF]], neg=True)), lgrams.tok("M", cls([[0x10FFFF, 0x10FFFF]]))]))
    out.append(lgrams.spec("cls-neg-zero", [lgrams.tok("N", cls([[0, 0]], neg=True)), lgrams.tok("Z", cls([[0, 0]]))]))
    out.append(lgrams.spec("cls-diff-hole", [lgrams.tok("D", plus(cls(["a-z"], sub=["m-p"]))), lgrams.tok("H", plus(cls(["m-p"])))]))
    out.append(lgrams.spec("cls-diff-neg", [lgrams.tok("D", plus(cls(["a-z"], sub=["a-c", "x-z"], sneg=True))), lgrams.tok("R", plus(cls(["a-z"])))]))
    out.append(lgrams.spec("cls-diff-all", [lgrams.tok("D", plus(cls([[0, 0x10FFFF]], sub=["a-z"]))), lgrams.tok("R", plus(cls(["a-z"])))]))
    out.append(lgrams.spec("cls-overlap-nest", [lgrams.tok("A", cat(cls(["a-z"]), lit("1"))), lgrams.tok("B", cat(cls(["f-k"]), lit("2"))),
                                               lgrams.tok("C", cat(cls(["h-h"]), lit("3"))), lgrams.tok("D", cat(cls(["a-h"]), lit("4"))),
                                               lgrams.tok("E", cat(cls(["h-z"]), lit("5")))]))
    out.append(lgrams.spec("cls-adjacent", [lgrams.tok("A", cat(cls(["a-f"]), lit("1"))), lgrams.tok("B", cat(cls(["g-m"]), lit("2"))),
                                           lgrams.tok("C", cat(cls(["f-g"]), lit("3")))]))
    out.append(lgrams.spec("cls-unsorted-dups", [lgrams.tok("A", plus(cls(["x-z", "a-c", "b-y", "m", "m"]))), lgrams.tok("B", plus(cls(["0-9"])))]))
    out.append(lgrams.spec("dot-all", [lgrams.tok("NL", lit([0x0A])), lgrams.tok("ANY", anyc())]))
    out.append(lgrams.spec("cls-x-escape", [lgrams.tok("A", lit("A")), lgrams.tok("B", plus(cls(["b-c"])))]))
    out[-1]["lox_text"] = "@lexer\nA = '\\x41'\nB = [\\x62-\\x63]+\n\n@parser\n@start s = A\n"
    # every short escape in first / middle / last position of a class (next to single characters, not ranges)
    specials = [0x0A, 0x0D, 0x09, 0x5C, 0x2D]
    for pos in (0, 1, 2):
        rules = []
        for k, sp in enumerate(specials):
            items = ["+", "0"]
            items.insert(pos, sp)
            rules.append(lgrams.tok("P%d" % k, cat(cls(items), lit(str(k)))))
            rules.append(lgrams.tok("N%d" % k, cat(cls(items, neg=True), lit(chr(ord("a") + k)))))
        out.append(lgrams.spec("cls-escape-pos%d" % pos, rules))
    out.append(lgrams.spec("cls-dash-spelled", [lgrams.tok("A", cat(cls(["a", 0x2D, "c"]), lit("1"))), lgrams.tok("B", cat(cls(["x", 0x2D, "z"]), lit("2"))),
                                               lgrams.tok("C", cat(cls(["m", 0x2D, "k"]), lit("3")))]))
    out[-1]["lox_text"] = "@lexer\nA = [a\\u002Dc] '1'\nB = [x\\x2Dz] '2'\nC = [m\\U0000002Dk] '3'\n\n@parser\n@start s = A\n"
    # escaped surrogates: no UTF-8 input contains them, so the class / literal can match nothing
    out.append(lgrams.spec("cls-surrogate", [lgrams.tok("S", cat(cls([[0xD800, 0xD800]]), lit("x"))), lgrams.tok("O", plus(cls(["a-z"])))]))
    out.append(lgrams.spec("lit-surrogate", [lgrams.tok("S", lit([0xDFFF, 0x78])), lgrams.tok("O", plus(cls(["a-z"])))]))
    for i in range(n):
        k = rng.randint(1, 4)
        items = []
        for _ in range(k):
            lo = rng.choice(B + [rng.randrange(0, 0x110000) for _ in range(3)])
            hi = min(MAXRUNE, lo + rng.choice([0, 0, 1, 5, 0x100, 0x10000]))
            if 0xD800 <= lo <= 0xDFFF or 0xD800 <= hi <= 0xDFFF or (lo < 0xD800 and hi > 0xDFFF and rng.random() < 0.5):
                continue
            items.append([lo, hi])
        if not items:
            items = [[0x61, 0x7A]]
        neg = rng.random() < 0.3
        sub = None
        e = cls(items, neg=neg)
        if rng.random() < 0.3:
            e = cls(items, neg=neg, sub=[[items[0][0], items[0][0]]])
        # an empty class is outside the property's premise: keep a companion rule so the spec is never empty
        out.append(lgrams.spec("cls-rnd-%d" % i, [lgrams.tok("X", cat(e, lit("!"))), lgrams.tok("Y", cat(cls([[0, MAXRUNE]]), lit("?")))]))
    return out


def has_surrogate(c):
    def walk(e):
        if e["k"] == "lit" and any(0xD800 <= x <= 0xDFFF for x in e["cs"]):
            return True
        if e["k"] == "cls" and any(0xD800 <= lo <= 0xDFFF or 0xD800 <= hi <= 0xDFFF for lo, hi in e["items"] + e["sitems"]):
            return True
        return any(walk(x) for x in e["es"])
    return any(walk(r["expr"]) for m in c["modes"] for r in m["rules"])


def nonempty(e):
    pts = set()
    expr_points(e, None, pts)
    pts |= {0, MAXRUNE}
    def inc(a, neg, items):
        return any(lo <= a <= hi for lo, hi in items) != neg
    for a in pts:
        if 0 <= a <= MAXRUNE and inc(a, e["neg"], e["items"]) and not (e["hassub"] and inc(a, e["sneg"], e["sitems"])):
            return True
    return False


def c15(tier):
    rep = Report("C15", tier)
    sc = scratch("c15")
    rng = random.Random(seed())
    quick = tier == "quick"
    r1, r2, nlists = rang3_part(rep, sc, quick, rng)
    cases = json.loads(json.dumps(class_cases(rng, 30 if quick else 300)))
    keep = []
    for c in cases:
        ok = True
        for m in c["modes"]:
            for r in m["rules"]:
                def walk(e):
                    if e["k"] == "cls" and not nonempty(e):
                        return False
                    return all(walk(x) for x in e["es"])
                ok = ok and walk(r["expr"])
        if ok:
            keep.append(c)
    cases = keep
    lox, mod, acc, runner = prepare(sc, cases)
    for c in cases:
        if not c["gen"]["ok"]:
            rep.failure("c15.rejected:" + c["id"], "lox rejected a class specification: " + c["gen"]["stderr"][-300:], PL.lreplay(c))
    # every boundary code point (+-1) as a one- and two-character input through the real lexer
    jobs = []
    for c in acc:
        pts = sorted(p for p in cut_points(c) if not (0xD800 <= p <= 0xDFFF))
        tails = [0x21, 0x3F, 0x31, 0x32, 0x33, 0x34, 0x35]
        extra = [[p] for p in pts] + [[p, t] for p in pts for t in tails[:2]]
        if len(pts) <= 40:
            extra += [[p, t] for p in pts for t in tails[2:]]
        jobs.append({"case": c["gen"]["pkg"], "alphabet": [], "maxlen": -1, "fulllen": 0, "extra": extra})
    recs = lcase.run_jobs(sc, runner, jobs)
    idx = {c["gen"]["pkg"]: i for i, c in enumerate(acc)}
    lcases = [tlc_lcase(c) for c in acc]
    lruns = [tlc_lrun(x, idx[x["case"]], "off") for x in recs]
    bad, ro = run_lexobs(sc, lcases, lruns)
    for b in bad:
        run_, c = lruns[b["r"]], acc[b["c"]]
        sig = "c15.class-or-literal-set-differs:" + c["id"]
        if has_surrogate(c) and any(r == 0xFFFD for r, w in run_["chars"]):
            sig = "c15.escaped-surrogate-becomes-fffd"
        rep.failure(sig, "spec %s input %s: tokens %s, set-theoretic meaning gives %s" % (
            c["id"], ["U+%04X" % r for r, w in run_["chars"]], b["got"], b["want"]), PL.lreplay(c, run_, {"want": b["want"]}))
    # and the emitted tables against the class semantics at every boundary (all strings)
    jobsP = [{"c": ci + 1, "m": 1} for ci in range(len(acc))]
    pbad, rp = run_product(sc, lcases, jobsP)
    for b in pbad:
        c = acc[jobsP[b["j"]]["c"] - 1]
        if has_surrogate(c) and b.get("lp") == "via" and b.get("a") in (0xFFFD, 0xD800, 0xDFFF):
            rep.failure("c15.escaped-surrogate-becomes-fffd", "spec %s: %s" % (c["id"], json.dumps(b)[:300]), PL.lreplay(c, None, {"product": b}))
            continue
        rep.failure("c15.table-set-differs:" + c["id"], "spec %s: %s" % (c["id"], json.dumps(b)[:300]), PL.lreplay(c, None, {"product": b}))
    rep.coverage = {
        "states": r1.distinct + r2.distinct + ro.distinct + rp.distinct,
        "transitions": r1.states + r2.states + ro.states + rp.states,
        "traces_validated_against_impl": nlists,
        "evaluations": nlists + len(lruns), "distinct_nontrivial": len(acc) + nlists,
        "rule": "small scope: every list of <= 3 ranges over 0..U (U=5 quick, 7 thorough; triples sampled in quick) model-checked "
                "in Rang3.tla and run through the real rang3 package at three placements (0, U+4E00, ..U+10FFFF) with event-by-event "
                "comparison; full universe: class/literal specifications (every escape form, negation, difference, dot, overlapping and "
                "adjacent classes, random ranges at encoding boundaries) checked at every boundary code point +-1 through the real lexer "
                "and through the emitted table",
        "rang3_lists": nlists, "class_specs": len(acc), "boundary_inputs": len(lruns), "product_states": rp.distinct,
        "samples": [{"lox": lcase.render_lox(acc[0])}, {"list": [[0, 3], [2, 5]], "placements": [0, 0x4E00, MAXRUNE - 5]}],
    }
    rep.assumptions = ["TLC/SANY", "unicode/utf8 (surrogate code points cannot occur in UTF-8 input and are not fed)",
                       "renderer escapes (lib/lcase.py esc_char)", "simplelexer v0.5.0"]
    return rep.finish("model_checking")
