import props_parser
import props_lalr
CHECKS = {
    "C01": props_parser.c01,
    "C03": props_parser.c03,
    "C16": props_parser.c16,
    "C09": props_parser.c09,
    "C04": props_lalr.c04,
    "C05": props_lalr.c05,
}
