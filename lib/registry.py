import props_parser
CHECKS = {
    "C01": props_parser.c01,
}
