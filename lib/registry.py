import props_parser
import props_lalr
import props_lexer
import props_tables
import props_classes
import props_gendir
import props_crash
import props_wellformed
import props_numbering
CHECKS = {
    "C01": props_parser.c01,
    "C03": props_parser.c03,
    "C16": props_parser.c16,
    "C09": props_parser.c09,
    "C04": props_lalr.c04,
    "C05": props_lalr.c05,
    "C02": props_lexer.c02,
    "C07": props_lexer.c07,
    "C08": props_lexer.c08,
    "C11": props_lexer.c11,
    "C10": props_tables.c10,
    "C15": props_classes.c15,
    "C13": props_gendir.c13,
    "C14": props_gendir.c14,
    "C12": props_crash.c12,
    "C17": props_wellformed.c17,
    "C19": props_numbering.c19,
}
