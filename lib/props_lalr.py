"""C04 (conflict verdict + LALR(1) isomorphism) and C05 (precedence grouping)."""
import json, os, random, re, subprocess
from vlib import *
from pcase import *
from pfamily import *
import grams
import props_parser as PP


def dump_dirs(sc, dirs, lalr=True, timeout=900, trace=False):
    """in-process front-end / construction dump of many directories. If the tool dies (a fatal error inside lox cannot be
    recovered in-process), every directory is dumped in a process of its own and the ones that kill it are reported as
    crashed (panic field) instead of failing the whole check."""
    tool = build_tool(sc, "dump")
    flags = ([] if lalr else ["-nolalr"]) + (["-trace"] if trace else [])
    lf = os.path.join(sc, "dump-dirs-%d-%d.txt" % (len(dirs), int(trace)))
    open(lf, "w").write("\n".join(dirs) + "\n")
    p = run([tool] + flags + ["@" + lf], timeout=timeout, check=False)
    if p.returncode == 0:
        return [json.loads(l) for l in p.stdout.decode().splitlines() if l.strip()]
    log("dump tool died (%d); dumping %d directories one by one" % (p.returncode, len(dirs)))

    def one(d):
        try:
            q = subprocess.run([tool] + flags + [d], stdout=subprocess.PIPE, stderr=subprocess.PIPE, timeout=120)
        except subprocess.TimeoutExpired:
            return {"dir": d, "ok": False, "stage": "crash", "panic": "front-end did not terminate within 120 s", "diag": "", "states": [], "modes": [],
                    "terminals": [], "rules": [], "prods": [], "conflicts": False, "trace": []}
        if q.returncode == 0 and q.stdout.strip():
            return json.loads(q.stdout.decode().splitlines()[0])
        err = q.stderr.decode(errors="replace")
        m = re.search(r"(fatal error: [^\n]*|panic: [^\n]*)", err)
        return {"dir": d, "ok": False, "stage": "crash", "panic": "process died: " + (m.group(1) if m else err[-200:]), "diag": "", "states": [],
                "modes": [], "terminals": [], "rules": [], "prods": [], "conflicts": False, "trace": []}
    return pmap(one, dirs)


def lalr_case(case, d):
    cli = "skip" if case["gen"].get("skipcli") else ("ok" if case["gen"]["ok"] else ("conflicts" if case["gen"]["conflicts"] else "other"))
    g = {"terminals": d["terminals"], "rules": d["rules"],
         "prods": [{"lhs": p["lhs"], "rhs": p["rhs"], "prec": p["prec"], "assoc": p["assoc"]} for p in d["prods"]]}
    return {"id": case["id"], "g": g, "states": d["states"] or [], "conflicts": d["conflicts"], "cli": cli}


def run_lalr(sc, lcases, timeout=3000, tag="lalr"):
    sd = spec_dir(sc, "spec-" + tag)
    json.dump(lcases, open(os.path.join(sd, "lalr_cases.json"), "w"))
    r = tlc(sc, "LALRObs", cfg="LALRObs.cfg", cwd=sd, timeout=timeout)
    tlc_must(r, "LALRObs")
    if r.violation:
        raise Infra("LALRObs: TLC-level violation " + r.violation)
    out = {l["c"]: l for l in r.lines if l.get("lalr") == "v"}
    if len(out) != len(lcases):
        raise Infra("LALRObs judged %d of %d cases\n%s" % (len(out), len(lcases), r.out[-2000:]))
    return out, r


def classify_cell(lc, cell):
    """known deviation: @right production at equal level is reduced instead of shifted"""
    ref = [tuple(x) for x in cell["ref"]]
    lox = [tuple(x) for x in cell["lox"]]
    if ref == [("shift",)] and len(lox) == 1 and lox[0][0] == 1:
        p = lox[0][1]
        pr = lc["g"]["prods"][p]
        sp = cell["sp"]
        if pr["assoc"] == 1 and pr["prec"] > 0 and all(lc["g"]["prods"][q]["prec"] == pr["prec"] and
                                                       lc["g"]["prods"][q]["assoc"] == 1 for q in sp):
            return "right-assoc-equal-level-reduces"
    return "wrong-action"


def c04(tier):
    rep = Report("C04", tier)
    sc = scratch("c04")
    quick = tier == "quick"
    rng = random.Random(seed())
    cases = grams.curated_conflict() + grams.curated("lang")
    cases += grams.shift_family(3 if quick else 4) + grams.mixed_conflict_family()
    cases += grams.self_nesting() + grams.rename_variants(grams.curated("lang") + grams.self_nesting() + grams.curated_conflict())
    cases += grams.chain_family() + grams.order_variants(grams.curated_conflict() + grams.curated("lang"), rng, reverse=True, shuffles=0 if quick else 2)
    cases += grams.random_grammars(seed() + 4, 80 if quick else 500, prefix="rnd4", sugar=0.15, maxalts=3)
    cases += grams.random_grammars(seed() + 44, 60 if quick else 400, prefix="rnd4p", sugar=0.1, prec=True)
    if quick:
        small = grams.small_scope(max_rules=2, nterms=2, max_prods=2, max_rhs=2, stride=97, offset=seed() % 97)
    else:
        small = grams.small_scope(max_rules=2, nterms=2, max_prods=2, max_rhs=2, stride=7, offset=seed() % 7)
    for c in cases + small:
        c["bounds"] = False
    lox = build_lox(sc)
    mod = new_subject_module(sc)
    generate(sc, lox, mod, cases)
    # the small-scope family goes through the in-process construction only (the command's verdict is sampled above)
    for n, c in enumerate(small):
        d = os.path.join(mod, "s%05d" % n)
        os.makedirs(d, exist_ok=True)
        open(os.path.join(d, "g.lox"), "w").write(render_lox(c))
        c["gen"] = {"dir": d, "ok": True, "conflicts": False, "skipcli": True}
    cases = cases + small
    dumps = dump_dirs(sc, [c["gen"]["dir"] for c in cases])
    lcases, keep = [], []
    for c, d in zip(cases, dumps):
        if d["panic"]:
            rep.failure("c04.panic:" + c["id"], "lox construction panicked: " + d["panic"], PP.replay_of(c))
            continue
        if not d["ok"]:
            rep.note("front-end rejected %s: %s" % (c["id"], d["diag"][:200]))
            continue
        if len(d["states"]) > 400:
            continue
        lcases.append(lalr_case(c, d))
        keep.append(c)
    log("C04: %d cases to the reference construction" % len(lcases))
    out, r = run_lalr(sc, lcases)
    nconf = 0
    for i, lc in enumerate(lcases):
        v, c = out[i], keep[i]
        if v["may"]:
            nconf += 1
        if not v["verdictOk"] or not v["cliOk"]:
            kind = "accepts-non-lalr" if v["must"] else "rejects-lalr"
            rep.failure("c04.%s:%s" % (kind, c["id"]),
                        "grammar %s: lox conflicts=%s (cli %s), reference: must=%s may=%s" % (
                            c["id"], lc["conflicts"], lc["cli"], v["must"], v["may"]), PP.replay_of(c))
            continue
        iso = v["functional"] and v["injective"] and v["onto"] and not v["badtrans"] and not v["misstrans"] and not v["baditems"]
        if not iso:
            rep.failure("c04.not-the-lalr-automaton:" + c["id"],
                        "grammar %s: lox's automaton is not isomorphic to the reference LALR(1) automaton "
                        "(states lox %d / ref %d, item sets differing in states %s, transitions %s/%s)" % (
                            c["id"], v["nlox"], v["nlalr"], v["baditems"][:5], v["badtrans"][:3], v["misstrans"][:3]),
                        PP.replay_of(c))
            continue
        for cell in v["cells"]:
            k = classify_cell(lc, cell)
            sig = "c04." + k if k != "wrong-action" else "c04.wrong-action:" + c["id"]
            rep.failure(sig, "grammar %s state %d terminal %s: lox %s, documented rule allows %s" % (
                c["id"], cell["q"], lc["g"]["terminals"][cell["a"]], cell["lox"], cell["ref"]), PP.replay_of(c))
    # ---- the construction loop itself: every visit the real ConstructLALR makes (verif-tag hook) must be the next
    #      visit of LALRConstruct.tla, and the model must end with the reference automaton
    sample = [c for c in keep if not c["gen"].get("skipcli")]
    rng.shuffle(sample)
    sample = sample[:(70 if quick else 600)]
    tdumps = dump_dirs(sc, [c["gen"]["dir"] for c in sample], trace=True)
    kc, kown = [], []
    for c, d in zip(sample, tdumps):
        if not d["ok"] or len(d["states"]) > 60:
            continue
        g = {"terminals": d["terminals"], "rules": d["rules"],
             "tnames": [[ord(x) for x in n] for n in d["terminals"]], "rnames": [[ord(x) for x in n] for n in d["rules"]],
             "prods": [{"lhs": p["lhs"], "rhs": p["rhs"], "prec": p["prec"], "assoc": p["assoc"]} for p in d["prods"]]}
        tr = [{"from": e["from"], "sym": [ord(x) for x in e["sym"]], "to": e["to"], "new": e["new"], "changed": e["changed"],
               "items": e["items"]} for e in d["trace"]]
        kc.append({"id": c["id"], "g": g, "trace": tr})
        kown.append(c)
    sdk = spec_dir(sc, "spec-lalrc")
    json.dump(kc, open(os.path.join(sdk, "lalrc_cases.json"), "w"))
    rk = tlc(sc, "LALRConstruct", cfg="LALRConstruct.cfg", cwd=sdk, timeout=3000)
    if rk.violation and "Temporal" in rk.violation:
        rep.failure("c04.construction-model-does-not-terminate", "LALRConstruct.tla: " + rk.violation, {"tlc": rk.out[-2000:]})
    else:
        tlc_must(rk, "LALRConstruct")
    ends = {l["c"]: l for l in rk.lines if l.get("lc") == "end"}
    mism = {l["c"]: l for l in rk.lines if l.get("lc") == "mismatch"}
    ntraced = 0
    for i, c in enumerate(kown):
        if i in mism:
            rep.note("DRIFT: the real ConstructLALR loop deviates from LALRConstruct.tla on %s at visit %d (model %s, real %s)" % (
                c["id"], mism[i]["l"], json.dumps(mism[i]["model"])[:160], json.dumps(mism[i]["real"])[:160]))
        elif i in ends:
            if ends[i]["traced"]:
                ntraced += 1
            if not ends[i]["isLALR"]:
                raise Infra("LALRConstruct.tla does not end with the reference automaton on %s: the model is wrong" % c["id"])
        else:
            raise Infra("LALRConstruct.tla gave no verdict for %s" % c["id"])
    rep.coverage = {
        "construction_traces_validated": ntraced, "construction_trace_drift": len(mism), "construction_model_states": rk.distinct,
        "programs": len(lcases), "disagreements_checked": len(lcases),
        "evaluations": len(lcases), "distinct_nontrivial": nconf,
        "rule": "grammars: curated classics (dangling else, LR(1)-not-LALR(1), precedence shapes), seeded random with and "
                "without qualifiers, a stride of the small-scope family; non-trivial = reference reports a conflict cell",
        "with_conflicts": nconf, "accepted": len(lcases) - nconf,
        "lr1_states_total": sum(v["nlr1"] for v in out.values()),
        "states": r.distinct, "transitions": r.states,
        "samples": [{"grammar": render_lox(keep[0]), "verdict": {k: out[0][k] for k in ("must", "may", "nlr1", "nlalr", "nlox")}}],
    }
    rep.assumptions = ["TLC/SANY", "harness/cmd/dump faithfully serialises lr1.ParserTable", "text renderer",
                       "where the documentation is silent (shifting productions with different levels, mixed associativity on a level) any verdict is accepted"]
    return rep.finish("translation_validation")


# =========================================================================== C05

def op_tables(quick, rng):
    tabs = []
    for nl in (1, 2, 3):
        import itertools
        for assocs in itertools.product((0, 1), repeat=nl):
            for counts in itertools.product((1, 2), repeat=nl):
                tabs.append(list(zip(assocs, counts)))
    if quick:
        # every single-level table, all 2-level assoc combinations, a sample of the 3-level ones
        keep = [t for t in tabs if len(t) == 1] + [t for t in tabs if len(t) == 2 and all(c == 1 for _, c in t)]
        rest = [t for t in tabs if t not in keep]
        rng.shuffle(rest)
        tabs = keep + rest[:10]
    return tabs


def climb_case(cid, tab, level_order, fn, prefix=0, decoy=0):
    """tab = [(assoc, nops)] per level (index 0 = weakest); level numbers are
    taken from level_order so that declaration order and level order differ."""
    names = "PQRSTUVW"
    ops = []
    alts = []
    k = 0
    for li, (assoc, n) in enumerate(tab):
        for _ in range(n):
            nm = names[k]; k += 1
            ops.append((nm, level_order[li], assoc))
    # declaration order: interleave so that it is not sorted by level
    decl = ops[1::2] + ops[0::2]
    for nm, lvl, assoc in decl:
        alts.append("e %s e @%s(%d)" % (nm, "right" if assoc else "left", lvl))
    # a qualified *prefix* production that reuses a binary operator's token (unary minus): it must not change how
    # purely binary chains group
    if prefix == 1:
        alts.append("%s e @right(%d)" % (ops[0][0], max(l for _, l, _ in ops) + 1))
    elif prefix == 2:
        alts.insert(0, "%s e @right(%d)" % (ops[-1][0], max(l for _, l, _ in ops) + 1))
    alts += ["LP e RP", "NUM"]
    if fn:
        alts.append("FN LP e RP")
    text = "e = " + " | ".join(alts)
    if decoy:
        # a second qualified rule over the *same operator tokens* with the level order and the associativity turned round
        # (levels are local to a rule: `type` expressions and value expressions sharing `*` and `&`); the chains below stay
        # in rule e and must group by e's own table, wherever the other rule is declared
        top = max(l for _, l, _ in ops) + 1
        dalts = ["t %s t @%s(%d)" % (nm, "left" if assoc else "right", top - lvl) for nm, lvl, assoc in reversed(ops)] + ["TM"]
        dtext = "t = " + " | ".join(dalts)
        text = "@start s = e | DEC t\n" + (dtext + "\n" + text if decoy == 1 else text + "\n" + dtext)
    g = grams.gram(cid, text, bounds=False)
    tn = {t: i + 2 for i, t in enumerate(g["terms"])}
    g["climb"] = {"ops": [{"t": tn[nm], "lvl": lvl, "assoc": assoc} for nm, lvl, assoc in ops],
                  "lp": tn["LP"], "rp": tn["RP"], "atom": tn["NUM"], "fn": tn.get("FN", -1), "off": 0}
    if decoy:
        # the other rule is judged as well, by its own table: chains `DEC TM op TM ...`
        g["climb2"] = {"ops": [{"t": tn[nm], "lvl": top - lvl, "assoc": 1 - assoc} for nm, lvl, assoc in ops],
                       "lp": -1, "rp": -2, "atom": tn["TM"], "fn": -1, "off": 1, "dec": tn["DEC"]}
    return g


def c05(tier):
    rep = Report("C05", tier)
    sc = scratch("c05")
    rng = random.Random(seed())
    quick = tier == "quick"
    cases = []
    for i, tab in enumerate(op_tables(quick, rng)):
        nl = len(tab)
        # levels need not be 1..n: use gaps and a shuffled mapping that keeps the order
        lv = sorted(rng.sample([1, 2, 3, 7, 9, 10, 11, 12, 19, 20, 21, 99, 100, 101, 1000, 65536], nl))
        cases.append(climb_case("ops-%d-%s" % (i, "".join("%s%d" % ("R" if a else "L", n) for a, n in tab)),
                                tab, lv, fn=(i % 3 == 0)))
        if len(tab) >= 2 and (i % 2 == 1 or not quick):
            cases.append(climb_case("ops-%d-%s-decoy%d" % (i, "".join("%s%d" % ("R" if a else "L", n) for a, n in tab), 1 + (i // 2) % 2),
                                    tab, lv, fn=False, decoy=1 + (i // 2) % 2))
        if i % 2 == 0 or not quick:
            cases.append(climb_case("ops-%d-%s-pfx%d" % (i, "".join("%s%d" % ("R" if a else "L", n) for a, n in tab), 1 + i % 2),
                                    tab, lv, fn=False, prefix=1 + (i // 2) % 2))
    lox, mod, acc, runner = PP.prepare(sc, cases)
    if len(acc) != len(cases):
        for c in cases:
            if not c["gen"]["ok"]:
                rep.failure("c05.rejected:" + c["id"], "lox rejected an operator table: " + c["gen"]["stderr"][-300:], PP.replay_of(c))
    import itertools
    jobs = []
    maxops = 3 if quick else 4
    for c in acc:
        cl = c["climb"]
        opts = [o["t"] for o in cl["ops"]]
        ws = []
        for n in range(0, maxops + 1):
            if len(opts) ** n > 700:
                continue        # tables with many operators: the longest chains are sampled below instead
            for combo in itertools.product(opts, repeat=n):
                w = [cl["atom"]]
                for o in combo:
                    w += [o, cl["atom"]]
                ws.append(w)
        for _ in range(0 if quick else 300):
            n = rng.randint(maxops, 7)
            w = [cl["atom"]]
            for _ in range(n):
                w += [rng.choice(opts), cl["atom"]]
            ws.append(w)
        # parenthesised / function-call variants of random chains
        for _ in range(60 if quick else 400):
            n = rng.randint(2, 6 if quick else 8)
            toks = [[cl["atom"]]]
            for _ in range(n):
                toks += [[rng.choice(opts)], [cl["atom"]]]
            a = rng.randrange(0, n) * 2
            b = rng.randrange(a // 2 + 1, n + 1) * 2
            pre = [cl["lp"]] if (cl["fn"] < 0 or rng.random() < 0.6) else [cl["fn"], cl["lp"]]
            toks = toks[:a] + [pre] + toks[a:b + 1] + [[cl["rp"]]] + toks[b + 1:]
            ws.append([t for grp in toks for t in grp])
        if "climb2" in c:
            c2 = c["climb2"]
            opts2 = [o["t"] for o in c2["ops"]]
            for n in range(0, maxops + 1):
                if len(opts2) ** n > 700:
                    continue
                for combo in itertools.product(opts2, repeat=n):
                    w = [c2["dec"], c2["atom"]]
                    for o in combo:
                        w += [o, c2["atom"]]
                    ws.append(w)
        jobs.append({"case": c["gen"]["pkg"], "alphabet": [], "maxlen": -1, "fulllen": 0, "extra": ws, "budget": 60})
    recs, hangs = run_jobs(sc, runner, jobs)
    idx = {c["gen"]["pkg"]: i for i, c in enumerate(acc)}
    sd = spec_dir(sc, "spec-climb")
    cfgs, cfgcase = [], []
    for i, c in enumerate(acc):
        c["cfg1"] = len(cfgs); cfgs.append(c["climb"]); cfgcase.append(i)
        if "climb2" in c:
            c["cfg2"] = len(cfgs); cfgs.append(c["climb2"]); cfgcase.append(i)
    json.dump(cfgs, open(os.path.join(sd, "climb_cases.json"), "w"))

    def cfg_of(x):
        c = acc[idx[x["case"]]]
        if "climb2" in c and x["w"] and x["w"][0] == c["climb2"]["dec"]:
            return c["cfg2"]
        return c["cfg1"]
    truns = [{"c": cfg_of(x) + 1, "w": x["w"], "ok": x["ok"] and not x["errs"],
              "events": [norm_event(e) for e in x["events"] if e["e"] == "act"]} for x in recs]
    # TLC reads the runs as one JSON value: feed them in chunks
    climb_bad = []
    r = TlcResult(); r.ok = True
    CH = 20000
    for k in range(0, len(truns), CH):
        part = truns[k:k + CH]
        json.dump(part, open(os.path.join(sd, "climb_runs.json"), "w"))
        rk = tlc(sc, "ClimbObs", cfg="ClimbObs.cfg", cwd=sd, timeout=3000)
        tlc_must(rk, "ClimbObs")
        if rk.violation or rk.distinct != 2 * len(part):
            raise Infra("ClimbObs did not evaluate every run: %s %d/%d" % (rk.violation, rk.distinct, 2 * len(part)))
        for l in rk.lines:
            if l.get("climb") == "bad":
                l["r"] += k
                climb_bad.append(l)
        r.states += rk.states; r.distinct += rk.distinct
    for b in climb_bad:
        run, c = truns[b["r"]], acc[cfgcase[b["c"]]]
        has_right_chain = False
        if b["isallleft"]:
            sig = "c05.right-assoc-equal-level"
        elif b["got"][0] == "rejected":
            sig = "c05.rejects-expression:" + c["id"]
        else:
            sig = "c05.wrong-grouping:" + c["id"]
        rep.failure(sig, "operator table %s, input %s: tree %s, precedence climbing gives %s" % (
            c["id"], run["w"], json.dumps(b["got"]), json.dumps(b["want"])),
            PP.replay_of(c, run["w"], {"got": b["got"], "want": b["want"]}))
    # the model, loaded with the real tables, on the same sequences (conformance of a sample)
    tcases = [tlc_case(c) for c in acc]
    sample = [x for x in recs if len(x["w"]) <= 7][: (1500 if quick else 8000)]
    tr = [tlc_run(x, idx[x["case"]], []) for x in sample]
    tv, rt = run_trace(sc, tcases, tr, tag="trace")
    drift = [1 for i in range(len(tr)) if tv.get(i, {}).get("tv") != "ok"]
    if drift:
        rep.note("DRIFT: %d of %d recorded runs are not behaviours of ParserRT" % (len(drift), len(tr)))
    rep.coverage = {
        "states": r.distinct + rt.distinct, "transitions": r.states + rt.states,
        "traces_validated_against_impl": len(tr) - len(drift),
        "evaluations": len(truns), "distinct_nontrivial": len([1 for x in truns if len(x["w"]) >= 5]),
        "rule": "operator tables: 1-3 levels x {left,right} x 1-2 operators per level, level numbers with gaps, declaration "
                "order not sorted by level, plus parentheses, atom and an unqualified alternative; inputs: every chain with "
                "up to %d operators and random parenthesised chains; non-trivial = input with >= 2 operators" % maxops,
        "operator_tables": len(acc),
        "samples": [{"grammar": render_lox(acc[-1]), "input": truns[-1]["w"]}],
    }
    rep.assumptions = ["TLC/SANY", "Go toolchain", "renderer"]
    return rep.finish("model_checking")
