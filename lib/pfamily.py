"""Family P (generated parser runtime): shared pipeline for C01 C03 C05 C09 C16 C18."""
import json, os, itertools, random, shutil
from vlib import *
from pcase import *


def norm_val(v):
    return {"k": v.get("k", ""), "i": v.get("i", 0), "ty": v.get("ty", 0), "n": v.get("n", 0),
            "l": [norm_val(x) for x in (v.get("l") or [])], "exp": list(v.get("exp") or [])}


def norm_event(e):
    return {"e": e["e"], "i": e.get("i", 0), "ty": e.get("ty", 0), "st": e.get("st", 0), "dep": e.get("dep", 0),
            "m": e.get("m", 0), "args": [norm_val(x) for x in (e.get("args") or [])], "ret": e.get("ret", 0),
            "v": norm_val(e.get("v") or {}), "end": e.get("end", 0), "ok": bool(e.get("ok", False))}


def norm_term(T):
    return {"k": T["k"], "t": T.get("t", 0), "i": T.get("i", 0), "st": T.get("st", 0), "si": T.get("si", 0)}


def tlc_case(case):
    """The record TLC sees for one accepted case."""
    g = {"terms": case["terms"],
         "rules": [{"name": r["name"],
                    "prods": [{"terms": [norm_term(T) for T in p["terms"]], "prec": p.get("prec", 0),
                               "assoc": p.get("assoc", 0)} for p in r["prods"]]} for r in case["rules"]],
         "start": case["start"]}
    meth = [[-1 for _ in r["prods"]] for r in case["rules"]]
    for m in case["gen"]["methods"]:
        for ri, pi in m["prods"]:
            meth[ri][pi] = m["id"]
    t = case["gen"].get("tables")
    rec = {"id": case["id"], "g": g, "meth": meth, "bounds": bool(case.get("bounds")),
           "alphabet": [i + 2 for i in range(len(case["terms"]))]}
    if t:
        rec["tables"] = {"actions": t["actions"], "goto": t["goto"], "rules": t["rules"],
                         "termCounts": t["termCounts"], "accept": t["accept"], "emitBounds": t["emitBounds"],
                         "shapes": [{"k": s["k"], "mid": s["mid"], "pk": s["pk"]} for s in t["shapes"]]}
    return rec


def tlc_run(rec, cidx, chk):
    full = "events" in rec and rec["events"] is not None
    return {"c": cidx + 1, "w": rec["w"], "ok": rec["ok"], "panic": rec["panic"], "budget": rec["budget"],
            "errs": rec["errs"], "nact": rec["nact"], "full": full,
            "events": [norm_event(e) for e in rec["events"]] if full else [], "chk": chk}


def write_inputs(sc, sub, tcases, truns):
    sd = spec_dir(sc, sub)
    json.dump(tcases, open(os.path.join(sd, "cases.json"), "w"))
    json.dump(truns, open(os.path.join(sd, "runs.json"), "w"))
    json.dump({"track": True, "maxlen": 0}, open(os.path.join(sd, "mcfg.json"), "w"))
    return sd


def run_obs(sc, tcases, truns, timeout=1800, tag="obs", chunk=250000):
    """Evaluate the definitional predicates with TLC (in chunks). Returns (bad lines with global run indices, TlcResult)."""
    if not truns:
        r = TlcResult(); r.ok = True
        return [], r
    total = TlcResult(); total.ok = True
    bad = []
    # chunks bounded by number of runs and by serialised size (TLC holds the whole JSON value as TLA+ records)
    bounds, k0, w = [], 0, 0
    for i, r_ in enumerate(truns):
        w += 60 + sum(40 + 30 * len(e.get("args") or []) + len(json.dumps(e.get("v"))) // 2 for e in r_.get("events") or [])
        if i + 1 - k0 >= chunk or w >= 30_000_000:
            bounds.append((k0, i + 1)); k0, w = i + 1, 0
    if k0 < len(truns):
        bounds.append((k0, len(truns)))
    for n_, (k, k1) in enumerate(bounds):
        part = truns[k:k1]
        sd = write_inputs(sc, "spec-%s-%d" % (tag, n_), tcases, part)
        r = tlc(sc, "ParserObs", cfg="ParserObs.cfg", cwd=sd, timeout=timeout, heap="12g")
        tlc_must(r, "ParserObs")
        if r.violation:
            raise Infra("ParserObs: unexpected TLC-level violation: " + r.violation)
        if r.distinct != 2 * len(part):
            raise Infra("ParserObs evaluated %d states for %d runs" % (r.distinct, len(part)))
        for l in r.lines:
            if l.get("ob") == "bad":
                l["r"] += k
                bad.append(l)
        total.states += r.states
        total.distinct += r.distinct
        shutil.rmtree(sd, ignore_errors=True)
    return bad, total


def run_trace(sc, tcases, truns, timeout=1800, tag="trace"):
    """Validate recorded runs against ParserRT. Returns (verdict by run idx, TlcResult)."""
    if not truns:
        r = TlcResult(); r.ok = True
        return {}, r
    sd = write_inputs(sc, "spec-" + tag, tcases, truns)
    r = tlc(sc, "ParserTrace", cfg="ParserTrace.cfg", cwd=sd, timeout=timeout)
    tlc_must(r, "ParserTrace")
    if r.violation:
        raise Infra("ParserTrace: unexpected TLC-level violation: " + r.violation)
    v = {}
    for l in r.lines:
        if "tv" in l:
            v[l["r"]] = l
    return v, r


def all_strings(alphabet, k):
    out = [[]]
    for n in range(1, k + 1):
        out += [list(t) for t in itertools.product(alphabet, repeat=n)]
    return out


def maxlen_for(nsym, cap):
    """largest k with sum_{i<=k} nsym^i <= cap"""
    k, tot, p = 0, 1, 1
    while True:
        p *= max(nsym, 1)
        if tot + p > cap or k >= 12:
            return k
        tot += p
        k += 1
        if nsym <= 1 and k >= 8:
            return k
