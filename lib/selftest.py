"""Demonstrated binding: corrupt one recorded field / one table cell / drop one event and require TLC to reject.
Run with `./check SELFTEST quick`. Exit 0 iff every corruption is rejected and the uncorrupted data is accepted."""
import copy, json, os, random
from vlib import *
import pcase, grams, lcase, lgrams
from pfamily import *
import props_parser as PP
from lfamily import prepare as lprepare, tlc_lcase, tlc_lrun, run_lextrace, run_lexobs, run_product


def selftest(tier):
    sc = scratch("selftest")
    results = []

    def expect(name, ok):
        results.append((name, ok))
        print("%-60s %s" % (name, "rejected as required" if ok else "NOT REJECTED"))
    # ---------------- parser
    cases = [grams.gram("expr-lr", "e = e P t | t\nt = t M f | f\nf = L e R | N"),
             grams.gram("err-stmt", "s = block | @error\nblock = L stmt* R | @error R\nstmt = I S | @error S | block")]
    lox, mod, acc, runner = PP.prepare(sc, cases)
    jobs = PP.lang_jobs(acc, 200, 200, with_error=True)
    recs, _ = pcase.run_jobs(sc, runner, jobs)
    idx = {c["gen"]["pkg"]: i for i, c in enumerate(acc)}
    tc = [tlc_case(c) for c in acc]
    runs = [tlc_run(x, idx[x["case"]], ["c01", "c03", "c16", "c09"]) for x in recs]
    runs = [r for r in runs if not r["budget"]]
    tv, _ = run_trace(sc, tc, runs, tag="st0")
    base_ok = all(v.get("tv") == "ok" for v in tv.values()) and len(tv) == len(runs)
    print("%-60s %s" % ("parser traces, uncorrupted", "accepted" if base_ok else "NOT ACCEPTED"))
    results.append(("parser baseline", base_ok))
    long_runs = [r for r in runs if len([e for e in r["events"] if e["e"] == "act"]) >= 3]
    r0 = long_runs[len(long_runs) // 2]

    def trace_rejects(mut, tag):
        r = copy.deepcopy(r0)
        mut(r)
        tv, _ = run_trace(sc, tc, [r], tag=tag)
        return tv.get(0, {}).get("tv") != "ok"
    acts = [i for i, e in enumerate(r0["events"]) if e["e"] == "act"]
    reads = [i for i, e in enumerate(r0["events"]) if e["e"] == "read"]
    expect("parser trace: drop one action event", trace_rejects(lambda r: r["events"].pop(acts[1]), "st1"))
    expect("parser trace: change an argument's node id", trace_rejects(lambda r: r["events"][acts[-1]]["args"][0].__setitem__("i", 99), "st2"))
    expect("parser trace: change the logged stack depth of a read", trace_rejects(lambda r: r["events"][reads[1]].__setitem__("dep", 42), "st3"))
    expect("parser trace: flip the return value", trace_rejects(lambda r: r["events"][-1].__setitem__("ok", not r["events"][-1]["ok"]), "st4"))
    # one table cell
    tc2 = copy.deepcopy(tc)
    t = tc2[r0["c"] - 1]["tables"]["actions"]
    n = t[0]
    t[n + 2] = t[n + 2] + 1 if t[n + 2] >= 0 else t[n + 2] - 1       # first value of the first row
    tv, _ = run_trace(sc, tc2, [r for r in runs if r["c"] == r0["c"]][:40], tag="st5")
    expect("parser tables: change one action cell", any(v.get("tv") != "ok" for v in tv.values()) or len(tv) < 40)
    # oracle side: a wrong result must be flagged
    r = copy.deepcopy([x for x in runs if x["ok"] and not x["errs"] and x["w"]][0])
    r["ok"] = False
    bad, _ = run_obs(sc, tc, [r], tag="st6")
    expect("parser oracle: a sentence reported as rejected", len(bad) == 1)
    # ---------------- lexer
    specs = json.loads(json.dumps([lgrams.CURATED_MODES[0], lgrams.CURATED_GREEDY[0]]))
    llox, lmod, lacc, lrunner = lprepare(sc, specs, lox=lox)
    ljobs = [{"case": c["gen"]["pkg"], "alphabet": [ord(x) for x in "+-()i f"], "maxlen": 3, "fulllen": 3, "extra": []} for c in lacc]
    lrecs = lcase.run_jobs(sc, lrunner, ljobs)
    lidx = {c["gen"]["pkg"]: i for i, c in enumerate(lacc)}
    lc = [tlc_lcase(c) for c in lacc]
    lruns = [tlc_lrun(x, lidx[x["case"]], "off") for x in lrecs]
    tvl, _ = run_lextrace(sc, lc, lruns, tag="sl0")
    base_ok = all(v.get("lt") == "ok" for v in tvl.values()) and len(tvl) == len(lruns)
    print("%-60s %s" % ("lexer traces, uncorrupted", "accepted" if base_ok else "NOT ACCEPTED"))
    results.append(("lexer baseline", base_ok))
    l0 = [r for r in lruns if len(r["steps"]) >= 5 and len(r["tokens"]) >= 3][0]

    def ltrace_rejects(mut, tag):
        r = copy.deepcopy(l0)
        mut(r)
        tv, _ = run_lextrace(sc, lc, [r], tag=tag)
        return tv.get(0, {}).get("lt") != "ok"
    expect("lexer trace: change the state after one PushRune", ltrace_rejects(lambda r: r["steps"][1].__setitem__(2, r["steps"][1][2] + 1), "sl1"))
    expect("lexer trace: change a token's end offset", ltrace_rejects(lambda r: r["tokens"][0].__setitem__(2, r["tokens"][0][2] + 1), "sl2"))
    expect("lexer trace: drop one PushRune call", ltrace_rejects(lambda r: r["steps"].pop(2), "sl3"))
    r = copy.deepcopy(l0)
    r["tokens"][0][0] += 1
    bad, _ = run_lexobs(sc, lc, [r], tag="sl4")
    expect("lexer oracle: a token of the wrong type", len(bad) == 1)
    lc2 = copy.deepcopy(lc)
    mt = lc2[0]["tables"][0]
    i0 = mt[0]
    if mt[i0 + 2] > 0:
        mt[i0 + 4] = mt[i0 + 4] - 1 if mt[i0 + 4] > mt[i0 + 3] else mt[i0 + 4] + 1     # shrink / grow the first range of state 0
    pb, _ = run_product(sc, lc2, [{"c": 1, "m": 1}], tag="sl5")
    expect("lexer table: move one range end by one code point", len(pb) > 0)
    ok = all(o for _, o in results)
    print("SELFTEST %s (%d checks)" % ("OK" if ok else "FAILED", len(results)))
    return 0 if ok else 1
