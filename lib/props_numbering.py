"""C19: token constants -- one per terminal, EOF=0, ERROR=1, same numbers in all tables."""
import json, os, random
from vlib import *
import lcase, pcase
from lfamily import prepare


def name_str(t):
    k, i, j = t
    if k in ("EOF", "ERROR"):
        return k
    return "%s%d_%d" % (k, i, j)


def render_layout(layout):
    """-> (files, names in text order with sample chars, mode info)"""
    chars = "abcdefghijklmnopqrstuvwxyz0123456789"
    ci = [0]

    def ch():
        c = chars[ci[0]]
        ci[0] += 1
        return c
    files = {}
    cur = []
    fname1, fname2 = "m.lox", "m.lox"
    parts = [cur]
    first_tok = None
    samples = []      # (name tuple, input runes to lex it in sequence)
    for idx, it in enumerate(layout, 1):
        if it in ("N", "S"):
            cur = []
            parts.append(cur)
            fname1, fname2 = ("m.lox", "z.lox") if it == "N" else ("m.lox", "a.lox")
            continue
        if it == "T":
            c = ch()
            n = ("T", idx, 0)
            cur.append("%s = '%s'" % (name_str(n), c))
            samples.append((n, [ord(c)]))
            first_tok = first_tok or n
        elif it == "M":
            c0, c1, c2 = ch(), ch(), ch()
            n0, n1, n2 = ("M", idx, 0), ("M", idx, 1), ("M", idx, 2)
            cur.append("%s = '%s' @push_mode(Mode%d)" % (name_str(n0), c0, idx))
            cur.append("@mode Mode%d {\n  %s = '%s'\n  %s = '%s' @pop_mode\n}" % (idx, name_str(n1), c1, name_str(n2), c2))
            samples += [(n0, [ord(c0)]), (n1, [ord(c1)]), (n2, [ord(c2)])]
            first_tok = first_tok or n0
        elif it in ("X1", "X2"):
            ns = [("X", idx, 1)] + ([("X", idx, 2)] if it == "X2" else [])
            cur.append("@external " + " ".join(name_str(n) for n in ns))
        elif it == "F":
            c = ch()
            cur.append("@frag '%s' @emit(%s)" % (c, name_str(first_tok)))
            samples.append((first_tok, [ord(c)]))
    return parts, (fname1, fname2), samples


def c19(tier):
    rep = Report("C19", tier)
    sc = scratch("c19")
    rng = random.Random(seed())
    quick = tier == "quick"
    sd = spec_dir(sc, "spec-num")
    json.dump({"phase": "gen", "maxlen": 4}, open(os.path.join(sd, "num_phase.json"), "w"))
    json.dump([], open(os.path.join(sd, "num_done.json"), "w"))
    r0 = tlc(sc, "Numbering", cfg="Numbering.cfg", cwd=sd, timeout=600, workers=1)
    tlc_must(r0, "Numbering gen")
    gen = [l for l in r0.lines if "layouts" in l]
    if not gen:
        raise Infra("Numbering produced no layouts\n" + r0.out[-1500:])
    layouts = sorted(gen[0]["layouts"], key=lambda l: (len(l), l))
    total = len(layouts)
    short = [l for l in layouts if len(l) <= 2]
    rest = [l for l in layouts if len(l) > 2]
    rng.shuffle(rest)
    layouts = short + rest[:(45 if quick else 500)]
    cases = []
    for i, l in enumerate(layouts):
        parts, (f1, f2), samples = render_layout(l)
        # expected declaration order is the oracle's business; the parser rule just uses every name once, in text order
        allnames = []
        for p in parts:
            for ln in p:
                pass
        # names in *text* order (first part then second part)
        from itertools import chain
        text_names = []
        for idx, it in enumerate(l, 1):
            if it == "T":
                text_names.append(("T", idx, 0))
            elif it == "M":
                text_names += [("M", idx, 0), ("M", idx, 1), ("M", idx, 2)]
            elif it == "X1":
                text_names.append(("X", idx, 1))
            elif it == "X2":
                text_names += [("X", idx, 1), ("X", idx, 2)]
        files = {}
        files[f1] = "@lexer\n" + "\n".join(parts[0]) + "\n"
        if len(parts) > 1:
            files[f2] = "@lexer\n" + "\n".join(parts[1]) + "\n"
        cases.append({"id": "layout-" + "-".join(l), "layout": l, "lox_files": files, "text_names": text_names, "samples": samples,
                      "files12": (f1, f2), "rev_parts": [list(reversed(p)) for p in parts]})
    # the parser section needs the *declaration* order to build the sentence the oracle walks: ask TLC for it
    # (render first with a placeholder, then fill in after the gen phase returns Expected -- simpler: a second TLC pass is avoided by
    #  letting the parser rule list the names in text order and having the oracle walk them in declaration order; so the rule is a
    #  set of alternatives, one per permutation is too many -- instead the rule is `s = t*` over a helper rule with one alternative per name)
    # variants: some terminals never referenced by the parser, and / or generation with --report (the report pass walks the
    # grammar too); the numbering must not depend on either
    variants = []
    for i, c in enumerate(cases):
        c["ref_names"] = list(c["text_names"])
        kinds = [("u", False), ("ur", True), ("r", True)]
        # "h": the directory already holds the output of an earlier edit of the same project (the same names declared in the
        # reverse order): the three files must agree with each other and with the *current* declaration order all the same
        for tag, rpt in (kinds if i % 3 == 0 else [kinds[i % 3]]) + ([("h", False)] if len(c["text_names"]) >= 2 and i % 2 == 0 else []):
            v = json.loads(json.dumps(c))
            v["text_names"] = [tuple(n) for n in v["text_names"]]
            v["samples"] = [(tuple(n), rs) for n, rs in v["samples"]]
            v["files12"] = tuple(v["files12"])
            v["id"] = c["id"] + "+" + tag
            names = list(v["text_names"])
            if "u" in tag:
                if len(names) < 2:
                    continue
                drop = set(rng.sample(range(len(names)), rng.randint(1, max(1, len(names) // 2))))
                names = [n for k, n in enumerate(names) if k not in drop]
            v["ref_names"] = names
            if rpt:
                v["lox_flags"] = ["--report"]
            variants.append(v)
    cases += variants
    for c in cases:
        alts = " | ".join(name_str(n) for n in c["ref_names"])
        f1 = c["files12"][0]
        c["lox_files"][f1] += "\n@parser\n@start s = t*\nt = %s\n" % alts
        if c["id"].endswith("+h"):
            rp = c["rev_parts"]
            pre = {f1: "@lexer\n" + "\n".join(rp[0]) + "\n\n@parser\n@start s = t*\nt = %s\n" % alts}
            if len(rp) > 1:
                pre[c["files12"][1]] = "@lexer\n" + "\n".join(rp[1]) + "\n"
            c["pre_lox_files"] = pre
        c["go_text"] = "\n".join([
            "package PKGNAME", "", "type Token struct{ Ty int }", "", "type Parser struct{ lox }", "",
            "func (p *Parser) on_s(ts []Token) int { return len(ts) }", "func (p *Parser) on_t(t Token) Token { return t }", "",
            "type SM = _LexerStateMachine", "", "func NewSM() *SM { return new(_LexerStateMachine) }", "",
            "func TokName(t int) string { return _TokenToString(t) }", ""])
    lox, mod, acc, runner = prepare(sc, cases)
    for c in cases:
        if not c["gen"]["ok"]:
            rep.failure("c19.rejected:" + c["id"], "lox rejected a declaration layout: " + c["gen"]["stderr"][-300:], {"id": c["id"], "files": c["lox_files"]})
    jobs = []
    for c in acc:
        seq = [r for _, rs in c["samples"] for r in rs]
        jobs.append({"case": c["gen"]["pkg"], "alphabet": [], "maxlen": -1, "fulllen": 0, "extra": [seq],
                     "names": len(c["text_names"]) + 3})
    recs = lcase.run_jobs(sc, runner, jobs)
    byc = {}
    for r in recs:
        byc.setdefault(r["case"], {})["names" if "names" in r else "run"] = r
    done = []

    def parse_name(s):
        if s in ("EOF", "ERROR", "???", "PANIC"):
            return [s, 0, 0]
        k = s[0]
        i, j = s[1:].split("_")
        return [k, int(i), int(j)]
    for c in acc:
        g = c["gen"]
        o = byc[g["pkg"]]
        consts = [[parse_name(n), v] for n, v in g["base"]["consts"]]
        tostring = [[v, parse_name(nm)] for v, nm in o["names"]["names"]]
        toks = [t for t in o["run"]["tokens"] if t[0] != 0]
        lexed = []
        for k, (n, rs) in enumerate(c["samples"]):
            ty = toks[k][0] if k < len(toks) else -1
            lexed.append([list(n), ty])
        pt = pcase.scrape_parser(g["parser_src"])
        done.append({"layout": c["layout"], "ref": [list(x) for x in c["ref_names"]], "consts": consts, "tostring": tostring, "lexed": lexed,
                     "tables": {"actions": pt["actions"], "goto": pt["goto"], "accept": pt["accept"]}})
    json.dump({"phase": "check", "maxlen": 4}, open(os.path.join(sd, "num_phase.json"), "w"))
    json.dump(done, open(os.path.join(sd, "num_done.json"), "w"))
    r = tlc(sc, "Numbering", cfg="Numbering.cfg", cwd=sd, timeout=900)
    tlc_must(r, "Numbering check")
    if r.violation or r.distinct != 2 * len(done):
        raise Infra("Numbering check incomplete %s %d/%d\n%s" % (r.violation, r.distinct, 2 * len(done), r.out[-1200:]))
    for b in [l for l in r.lines if l.get("num") == "bad"]:
        c = acc[b["k"]]
        what = [k for k, ok in b["v"].items() if not ok]
        rep.failure("c19.%s:%s" % ("+".join(what), "-".join(c["layout"]) + c["id"][len("layout-" + "-".join(c["layout"])):]),
                    "layout %s: %s differ from the expected numbering %s; consts %s" % (
                        c["layout"], what, [name_str(n) for n in b["expected"]], c["gen"]["base"]["consts"]),
                    {"id": c["id"], "files": c["lox_files"], "observed": done[b["k"]]})
    rep.coverage = {
        "programs": len(done), "disagreements_checked": len(done) * 4,
        "evaluations": len(done), "distinct_nontrivial": len([c for c in acc if len(c["layout"]) >= 2]),
        "rule": "declaration layouts enumerated by TLC (sequences up to 4 of: token, token+mode with two tokens, @external with 1/2 names, "
                "fragment emitting an earlier token, boundary to a second file sorting after/before): %d layouts, all of length <= 2 and a "
                "seeded sample of the longer ones; per layout the const block, _TokenToString over -1..n+1 (evaluated in the compiled package), "
                "the token type the real lexer returns for every rule's lexeme, and the keys of _actions along the sentence of all terminals; "
                "non-trivial = layout with >= 2 items" % total,
        "layouts_total": total, "states": r0.distinct + r.distinct, "transitions": r0.states + r.states,
        "samples": [{"layout": acc[-1]["layout"], "files": acc[-1]["lox_files"], "consts": acc[-1]["gen"]["base"]["consts"]}],
    }
    # ---- the numbers in use: whole generated programs (text -> driver over the emitted lexer tables -> parser keyed by the emitted
    # action rows), modelled by Lox.tla (LexerRT x ParserRT composed where the template pulls a token), judged against the
    # definition (LexSem token types, then CFG membership), and bound to the compiled programs on the same texts
    import props_lox
    rep.coverage.update(props_lox.system_composition(rep, sc, quick, rng, lox))
    rep.coverage["states"] += rep.coverage.get("system_model_states", 0)
    rep.coverage["transitions"] += rep.coverage.get("system_model_transitions", 0)
    rep.assumptions = ["TLC/SANY", "renderer of layouts (names encode kind, item index, position)", "simplelexer v0.5.0 (assumes EOF=0, ERROR=1)"]
    return rep.finish("translation_validation")
