"""C18: generated parsers and lexers are safe to run concurrently."""
import json, os, random, re, subprocess, itertools
from vlib import *
import pcase, grams, lcase, lgrams
from pfamily import norm_event
import props_parser as PP
from lfamily import prepare as lprepare

RUNC = '''package main

import (
	"bufio"
	"encoding/json"
	"fmt"
	"os"
	"sync"

	"xv/hk"
%(imports)s
)

type runFn func(w []int, maxCalls int, progress *int64, gate func(int)) hk.RunResult

var subjects = map[string]runFn{
%(table)s
}

type inst struct {
	Case string `json:"case"`
	W    []int  `json:"w"`
}

type job struct {
	Insts  []inst  `json:"insts"`
	Scheds [][]int `json:"scheds"` // each: sequence of 1-based instance numbers, one entry per gate
	Free   int     `json:"free"`   // > 0: that many free-running rounds instead of schedules
}

type outRec struct {
	Job    int           `json:"job"`
	Sched  int           `json:"sched"`
	Res    []hk.RunResult `json:"res"`
}

func runScheduled(insts []inst, sched []int) []hk.RunResult {
	n := len(insts)
	res := make([]hk.RunResult, n)
	arrived := make([]chan bool, n) // true: at a gate, false: finished
	proceed := make([]chan struct{}, n)
	var wg sync.WaitGroup
	for i := range insts {
		arrived[i] = make(chan bool)
		proceed[i] = make(chan struct{})
		wg.Add(1)
		go func(i int) {
			defer wg.Done()
			gate := func(int) {
				arrived[i] <- true
				<-proceed[i]
			}
			res[i] = subjects[insts[i].Case](insts[i].W, 100000, nil, gate)
			arrived[i] <- false
		}(i)
	}
	atGate := make([]bool, n)
	for i := range insts {
		atGate[i] = <-arrived[i] // every instance runs up to its first lexer read
	}
	for _, s := range sched {
		i := s - 1
		if !atGate[i] {
			continue // schedule longer than this instance's run: ignored
		}
		proceed[i] <- struct{}{}
		atGate[i] = <-arrived[i]
	}
	// release whatever is still waiting (a run with more reads than the model predicted)
	for i := range insts {
		for atGate[i] {
			proceed[i] <- struct{}{}
			atGate[i] = <-arrived[i]
		}
	}
	wg.Wait()
	return res
}

func runFree(insts []inst) []hk.RunResult {
	res := make([]hk.RunResult, len(insts))
	var wg sync.WaitGroup
	start := make(chan struct{})
	for i := range insts {
		wg.Add(1)
		go func(i int) {
			defer wg.Done()
			<-start
			res[i] = subjects[insts[i].Case](insts[i].W, 100000, nil, nil)
		}(i)
	}
	close(start)
	wg.Wait()
	return res
}

func main() {
	jf, _ := os.Open(os.Args[1])
	var jobs []job
	if err := json.NewDecoder(jf).Decode(&jobs); err != nil {
		fmt.Fprintln(os.Stderr, err)
		os.Exit(2)
	}
	out := bufio.NewWriterSize(os.Stdout, 1<<20)
	enc := json.NewEncoder(out)
	for ji, j := range jobs {
		if j.Free > 0 {
			for r := 0; r < j.Free; r++ {
				enc.Encode(outRec{Job: ji, Sched: -1 - r, Res: runFree(j.Insts)})
			}
			continue
		}
		for si, s := range j.Scheds {
			enc.Encode(outRec{Job: ji, Sched: si, Res: runScheduled(j.Insts, s)})
		}
	}
	out.Flush()
}
'''


def build_runc(sc, mod, cases, race=False, name="runc"):
    ok = [c for c in cases if c["gen"]["ok"]]
    imports = "\n".join('\t%s "xv/%s"' % (c["gen"]["pkg"], c["gen"]["pkg"]) for c in ok)
    table = "\n".join('\t"%s": %s.Run,' % (c["gen"]["pkg"], c["gen"]["pkg"]) for c in ok)
    d = os.path.join(mod, name)
    os.makedirs(d, exist_ok=True)
    open(os.path.join(d, "main.go"), "w").write(RUNC % {"imports": imports, "table": table})
    out = os.path.join(sc, "bin", name)
    cmd = ["go", "build"] + (["-race"] if race else []) + ["-tags", "peekstate", "-o", out, "./" + name]
    p = run(cmd, cwd=mod, check=False, env=GOENV_RACE if race else GOENV, timeout=1200)
    if p.returncode != 0:
        raise Infra("concurrency runner does not build%s:\n%s" % (" with -race" if race else "", p.stderr.decode()[-3000:]))
    return out


RUNLC = '''package main

import (
	"encoding/json"
	"fmt"
	gotoken "go/token"
	"os"
	"reflect"
	"sync"

	"github.com/dcaiafa/loxlex/simplelexer"
%(imports)s
)

var subjects = map[string]func() simplelexer.StateMachine{
%(table)s
}

type inst struct {
	Case string `json:"case"`
	In   string `json:"in"`
}

func lexAll(c string, in string) [][3]int {
	data := []byte(in)
	fset := gotoken.NewFileSet()
	file := fset.AddFile("in", -1, len(data))
	lx := simplelexer.New(simplelexer.Config{StateMachine: subjects[c](), File: file, Input: data})
	var out [][3]int
	for n := 0; n < 4*len(data)+16; n++ {
		tok, ty := lx.ReadToken()
		s := int(tok.Pos) - file.Base()
		out = append(out, [3]int{ty, s, s + len(tok.Str)})
		if ty == simplelexer.EOF {
			break
		}
	}
	return out
}

func main() {
	var insts []inst
	json.Unmarshal([]byte(os.Args[1]), &insts)
	seq := make([][][3]int, len(insts))
	for i, it := range insts {
		seq[i] = lexAll(it.Case, it.In)
	}
	bad := 0
	for round := 0; round < %(rounds)d; round++ {
		got := make([][][3]int, len(insts))
		var wg sync.WaitGroup
		start := make(chan struct{})
		for i := range insts {
			wg.Add(1)
			go func(i int) {
				defer wg.Done()
				<-start
				got[i] = lexAll(insts[i].Case, insts[i].In)
			}(i)
		}
		close(start)
		wg.Wait()
		for i := range insts {
			if !reflect.DeepEqual(got[i], seq[i]) {
				bad++
				fmt.Printf("DIFF %%s %%q\\n", insts[i].Case, insts[i].In)
			}
		}
	}
	fmt.Printf("ROUNDS %%d BAD %%d\\n", %(rounds)d, bad)
}
'''


def lexer_stress(rep, sc, lmod, lacc, rounds):
    ok = [c for c in lacc if c["gen"]["ok"]]
    imports = "\n".join('\t%s "xv/%s"' % (c["gen"]["pkg"], c["gen"]["pkg"]) for c in ok)
    table = "\n".join('\t"%s": func() simplelexer.StateMachine { return %s.NewSM() },' % (c["gen"]["pkg"], c["gen"]["pkg"]) for c in ok)
    d = os.path.join(lmod, "runlc")
    os.makedirs(d, exist_ok=True)
    open(os.path.join(d, "main.go"), "w").write(RUNLC % {"imports": imports, "table": table, "rounds": rounds})
    exe = os.path.join(sc, "bin", "runlc")
    p = run(["go", "build", "-race", "-o", exe, "./runlc"], cwd=lmod, check=False, env=GOENV_RACE, timeout=1200)
    if p.returncode != 0:
        raise Infra("lexer race runner does not build: " + p.stderr.decode()[-2000:])
    texts = ["+-(--)-+", "p((p)p)p", "if iff fi", "pa pb x x p", "\"p{p}p\" 12+3", "abc abd a ab", "(((", "))) +"]
    insts = [{"case": ok[k % len(ok)]["gen"]["pkg"], "in": texts[k % len(texts)]} for k in range(64)]
    env = dict(os.environ); env["GORACE"] = "halt_on_error=0 exitcode=66"
    q = subprocess.run([exe, json.dumps(insts)], stdout=subprocess.PIPE, stderr=subprocess.PIPE, timeout=1200, env=env)
    err = q.stderr.decode(errors="replace")
    out = q.stdout.decode()
    races = err.count("WARNING: DATA RACE")
    if races or q.returncode == 66:
        rep.failure("c18.data-race-lexer", "race detector: %d data race(s) among 64 concurrent lexers: %s" % (races, err[:600]), {"stderr": err[:4000]})
    elif q.returncode != 0:
        raise Infra("lexer race runner failed: " + err[-1500:])
    m = re.search(r"ROUNDS (\d+) BAD (\d+)", out)
    if m and int(m.group(2)) > 0:
        rep.failure("c18.concurrent-lexing-changes-result", "%s lexer runs differ from their sequential result: %s" % (m.group(2), out[:400]), {"out": out[:2000]})
    return rounds * 64, races


def strip(res):
    return {"ok": res["ok"], "panic": res["panic"], "budget": res["budget"], "events": res["events"]}


def c18(tier):
    rep = Report("C18", tier)
    sc = scratch("c18")
    rng = random.Random(seed())
    quick = tier == "quick"
    picks = ["expr-lr", "json-ish", "star-mid", "list-of-rule", "err-stmt", "err-in-list", "err-calc", "b-list", "b-expr", "starF-rules"]
    allc = grams.curated("lang") + grams.curated("err") + grams.curated("bounds")
    cases = [c for c in allc if c["id"] in picks]
    for c in cases:
        c["bounds"] = c["id"].startswith("b-") or c["id"] in ("json-ish", "err-stmt")
    lox, mod, acc, runner = PP.prepare(sc, cases)
    if len(acc) < 4:
        raise Infra("too few subjects accepted")
    # ---- (c) inventory of package-level state in the generated files (binding of the spec's variable list to the code)
    tool = build_tool(sc, "inventory")
    files = []
    for c in acc:
        for fn in ("parser.gen.go", "base.gen.go"):
            files.append(os.path.join(c["gen"]["dir"], fn))
    lspecs = json.loads(json.dumps(list(lgrams.CURATED_MODES[:4]) + list(lgrams.CURATED_GREEDY[:4])))
    llox, lmod, lacc, lrunner = lprepare(sc, lspecs, lox=lox)
    for c in lacc:
        files.append(os.path.join(c["gen"]["dir"], "lexer.gen.go"))
    inv = json.loads(run([tool] + files, timeout=120).stdout.decode())
    allowed = re.compile(r"^(_rules|_termCounts|_actions|_goto|_lexerMode\d+|_lexerModes)$")
    for o in inv:
        if o["err"]:
            raise Infra("inventory: " + o["err"])
        for v in o["vars"]:
            if not allowed.match(v):
                rep.failure("c18.package-level-variable:" + v, "generated file %s declares package-level variable %s, which is not one of the "
                            "read-only tables of Concurrent.tla" % (os.path.basename(o["file"]), v), {"file": o["file"], "vars": o["vars"]})
        for w in o["writes"]:
            rep.failure("c18.table-written:" + w.split("@")[0], "generated code writes to a package-level table: " + w, {"file": o["file"], "write": w})
    # ---- sequential reference traces
    inputs = {}
    for c in acc:
        nt = len(c["terms"])
        ws = PP.random_sentences(c, rng, 6, maxlen=6)
        ws = [w for w in ws if 1 <= len(w) <= 4][:3] or [[2]]
        # one input with a lexer ERROR token / garbage to drive recovery
        ws.append([2, 1, 2 + (nt - 1)][:3])
        inputs[c["id"]] = ws
    seqjobs = [{"case": c["gen"]["pkg"], "alphabet": [], "maxlen": -1, "fulllen": 0, "extra": inputs[c["id"]], "budget": 200} for c in acc]
    recs, _ = pcase.run_jobs(sc, runner, seqjobs)
    seq = {}
    for r in recs:
        seq[(r["case"], tuple(r["w"]))] = r
    # ---- (a) all interleavings of 2 and 3 instances at the granularity of lexer reads
    runc = build_runc(sc, mod, acc)
    combos = []
    pk = [c for c in acc]
    pairs = [(pk[0], pk[0]), (pk[0], pk[1]), (pk[2], pk[3]), (pk[4 % len(pk)], pk[5 % len(pk)])]
    if not quick:
        pairs += [(a, b) for a in pk[:5] for b in pk[5:]]
    for a, b in pairs:
        combos.append([(a, inputs[a["id"]][0]), (b, inputs[b["id"]][-1])])
        combos.append([(a, inputs[a["id"]][-1]), (b, inputs[b["id"]][0])])
    combos.append([(pk[0], inputs[pk[0]["id"]][0][:2]), (pk[1], inputs[pk[1]["id"]][0][:2]), (pk[2], inputs[pk[2]["id"]][-1][:2])])
    jobs, meta = [], []
    tstates = ttrans = 0
    nsched = 0
    for combo in combos:
        gates = []
        ok = True
        for c, w in combo:
            r = seq.get((c["gen"]["pkg"], tuple(w)))
            if r is None:
                extra, _ = pcase.run_jobs(sc, runner, [{"case": c["gen"]["pkg"], "alphabet": [], "maxlen": -1, "fulllen": 0, "extra": [w], "budget": 200}], shards=1)
                r = extra[0]
                seq[(c["gen"]["pkg"], tuple(w))] = r
            if r["budget"]:
                ok = False
            gates.append(len([e for e in r["events"] if e["e"] == "read"]))
        if not ok or sum(gates) > (12 if quick else 14):
            continue
        sd = spec_dir(sc, "spec-conc-%d" % len(jobs))
        json.dump({"gates": gates}, open(os.path.join(sd, "conc_par.json"), "w"))
        r = tlc(sc, "Concurrent", cfg="Concurrent.cfg", cwd=sd, timeout=900, workers=4)
        tlc_must(r, "Concurrent")
        if r.violation:
            raise Infra("Concurrent.tla violates its own property: " + r.violation)
        scheds = [l["sched"] for l in r.lines if "sched" in l]
        tstates += r.distinct
        ttrans += r.states
        if len(scheds) > (400 if quick else 4000):
            rng.shuffle(scheds)
            scheds = scheds[:(400 if quick else 4000)]
        nsched += len(scheds)
        jobs.append({"insts": [{"case": c["gen"]["pkg"], "w": w} for c, w in combo], "scheds": scheds, "free": 0})
        meta.append(combo)
    jf = os.path.join(sc, "conc_jobs.json")
    json.dump(jobs, open(jf, "w"))
    p = subprocess.run([runc, jf], stdout=subprocess.PIPE, stderr=subprocess.PIPE, timeout=1800)
    if p.returncode != 0:
        raise Infra("concurrency runner failed: " + p.stderr.decode()[-2000:])
    nbad = 0
    for ln in p.stdout.decode().splitlines():
        o = json.loads(ln)
        combo = meta[o["job"]]
        for k, (c, w) in enumerate(combo):
            want = seq[(c["gen"]["pkg"], tuple(w))]
            got = o["res"][k]
            if got["ok"] != want["ok"] or got["panic"] != want["panic"] or (got["events"] or []) != (want["events"] or []):
                nbad += 1
                rep.failure("c18.interleaving-changes-result:" + c["id"],
                            "instances %s under schedule %s: instance %d (%s on %s) differs from its sequential run" % (
                                [(x["id"], y) for x, y in combo], jobs[o["job"]]["scheds"][o["sched"]], k + 1, c["id"], w),
                            {"combo": [(x["id"], y) for x, y in combo], "schedule": jobs[o["job"]]["scheds"][o["sched"]],
                             "grammars": [pcase.render_lox(x) for x, _ in combo]})
    # ---- (b) free-running stress under the race detector
    runcr = build_runc(sc, mod, acc, race=True, name="runcr")
    insts = []
    for k in range(64):
        c = acc[k % len(acc)]
        w = inputs[c["id"]][k % len(inputs[c["id"]])]
        insts.append({"case": c["gen"]["pkg"], "w": w})
    json.dump([{"insts": insts, "scheds": [], "free": 5 if quick else 60}], open(jf, "w"))
    env = dict(os.environ); env["GORACE"] = "halt_on_error=0 exitcode=66"
    p = subprocess.run([runcr, jf], stdout=subprocess.PIPE, stderr=subprocess.PIPE, timeout=1800, env=env)
    races = p.stderr.decode(errors="replace").count("WARNING: DATA RACE")
    if races or p.returncode == 66:
        m = re.search(r"WARNING: DATA RACE.*?(?=\n\n|\Z)", p.stderr.decode(errors="replace"), re.S)
        rep.failure("c18.data-race", "the race detector reports %d data race(s) among 64 concurrent parses: %s" % (races, (m.group(0) if m else "")[:600]),
                    {"stderr": p.stderr.decode(errors="replace")[:4000]})
    elif p.returncode != 0:
        raise Infra("race runner failed: " + p.stderr.decode()[-1500:])
    nfree = 0
    for ln in p.stdout.decode().splitlines():
        o = json.loads(ln)
        nfree += 1
        for k, it in enumerate(insts):
            want = seq.get((it["case"], tuple(it["w"])))
            if want is None:
                continue
            got = o["res"][k]
            if got["ok"] != want["ok"] or (got["events"] or []) != (want["events"] or []):
                rep.failure("c18.concurrent-run-changes-result", "free-running round %d: goroutine %d (%s on %s) differs from its sequential run" % (
                    -o["sched"], k, it["case"], it["w"]), {"inst": it})
    nlex, lraces = lexer_stress(rep, sc, lmod, lacc, 5 if quick else 60)
    rep.coverage = {
        "lexer_concurrent_runs": nlex, "lexer_race_reports": lraces,
        "states": tstates, "transitions": ttrans, "traces_validated_against_impl": nsched,
        "evaluations": nsched + nfree * 64, "distinct_nontrivial": nsched,
        "rule": "schedules: every interleaving (TLC, Concurrent.tla) of 2-3 parser instances at the granularity of lexer reads, same "
                "grammar and mixed grammars, with error recovery and _onBounds, each replayed on real goroutines through a blocking gate in "
                "ReadToken and compared event by event with the sequential run; %d free-running rounds of 64 goroutines under -race; "
                "inventory of package-level variables and writes to them in every generated file; non-trivial = replayed schedule" % nfree,
        "schedules_replayed": nsched, "free_rounds": nfree, "race_reports": races, "generated_files_inventoried": len(files),
        "samples": [{"instances": [(x["id"], y) for x, y in meta[0]], "schedule": jobs[0]["scheds"][0]}] if jobs else [],
    }
    rep.assumptions = ["Go race detector", "the gate is inside the harness lexer's ReadToken: interleavings are enumerated at callback granularity; "
                       "finer interleavings are covered by the race detector runs and the package-level inventory only"]
    return rep.finish("model_checking")
