"""C06: type-matched action binding -- exact verdict, compiles, values flow."""
import json, os, random, subprocess, itertools
from vlib import *
import props_gendir as GD

DECLS = """package u

type Token struct{ Ty int }
type Error struct {
	Token    Token
	Expected []int
}
type Node struct{ M int }

func (n *Node) Mark() int { return n.M }

type Expr interface{ Mark() int }
type Other struct{ M int }
type NodeList []*Node
type NodePtr = *Node
type MyAny interface{}
type Box[T any] struct{ V T }
type Fn func() int
type Dict map[string]int
"""

UNIVERSE = ["Token", "Error", "*Node", "Expr", "any", "MyAny", "NodePtr", "*Other", "Box[int]", "Box[string]", "map[string]int", "Dict",
            "Fn", "func() int", "NodeList", "[]*Node", "[]Expr", "[]any", "[]Token", "[]Box[int]", "[]Fn", "[]map[string]int", "[]MyAny",
            "[]NodeList", "[]Dict", "[]NodePtr", "[]*Other", "[]func() int", "[]Error", "[][]*Node", "[]Box[string]", "[][]Expr",
            "[][]any", "[][]Token", "int"]
RET_TYPES = ["*Node", "Expr", "any", "Box[int]", "map[string]int", "Fn", "NodeList", "MyAny", "Dict"]
PARAM_X = ["*Node", "Expr", "any", "MyAny", "NodePtr", "*Other", "Box[int]", "Box[string]", "map[string]int", "Dict", "Fn", "func() int", "NodeList", "[]*Node", "int"]
PARAM_YS = ["[]*Node", "NodeList", "[]Expr", "[]any", "any", "[]NodePtr", "[]Box[int]", "[]Fn", "[]map[string]int", "[]MyAny", "[]Dict", "[]NodeList", "MyAny"]

MK = {  # how the harness makes a value of a result type carrying mark m
    "*Node": "&Node{M: %s}", "Expr": "Expr(&Node{M: %s})", "any": "any(&Node{M: %s})", "MyAny": "MyAny(&Node{M: %s})",
    "Box[int]": "Box[int]{V: %s}", "map[string]int": "map[string]int{\"k\": %s}", "Dict": "Dict{\"k\": %s}",
    "Fn": "mkfn(%s)", "NodeList": "NodeList{&Node{M: %s}}",
    "Token": "Token{Ty: %s}", "NodePtr": "NodePtr(&Node{M: %s})", "func() int": "(func() int)(mkfn(%s))", "[]*Node": "[]*Node{&Node{M: %s}}",
}

HARNESS = '''
func mkfn(m int) Fn { return func() int { return m } }

// mark recovers the mark carried by a value, whatever static type it went through; 0 = zero value
func mark(v any) int {
	switch x := v.(type) {
	case nil:
		return 0
	case *Node:
		if x == nil {
			return 0
		}
		return x.M
	case *Other:
		if x == nil {
			return 0
		}
		return x.M
	case Box[int]:
		return x.V
	case Box[string]:
		return len(x.V)
	case map[string]int:
		return x["k"]
	case Dict:
		return x["k"]
	case Fn:
		if x == nil {
			return 0
		}
		return x()
	case func() int:
		if x == nil {
			return 0
		}
		return x()
	case NodeList:
		return marks(len(x), func(i int) any { return x[i] })
	case []*Node:
		return marks(len(x), func(i int) any { return x[i] })
	case []Expr:
		return marks(len(x), func(i int) any { return x[i] })
	case []any:
		return marks(len(x), func(i int) any { return x[i] })
	case []MyAny:
		return marks(len(x), func(i int) any { return x[i] })
	case []Box[int]:
		return marks(len(x), func(i int) any { return x[i] })
	case []Fn:
		return marks(len(x), func(i int) any { return x[i] })
	case []map[string]int:
		return marks(len(x), func(i int) any { return x[i] })
	case []Dict:
		return marks(len(x), func(i int) any { return x[i] })
	case []NodeList:
		return marks(len(x), func(i int) any { return x[i] })
	case Token:
		return x.Ty
	case Error:
		return 900 + x.Token.Ty
	case int:
		return x
	}
	return -1
}

func marks(n int, at func(int) any) int {
	s := n * 1000
	for i := 0; i < n; i++ {
		s += mark(at(i)) * (i + 1)
	}
	return s
}

type sliceLexer struct {
	w   []int
	pos int
}

func (l *sliceLexer) ReadToken() (Token, int) {
	if l.pos < len(l.w) {
		t := Token{Ty: l.w[l.pos]}
		l.pos++
		return t, t.Ty
	}
	return Token{}, 0
}

var Got []int

func Run(w []int) (ok bool, got []int, pan string) {
	defer func() {
		if e := recover(); e != nil {
			pan = "panic"
		}
	}()
	Got = nil
	p := &Parser{}
	ok = p.parse(&sliceLexer{w: w})
	return ok, Got, ""
}
'''

LOX = """@lexer
A = 'a'
B = 'b'
C = 'c'
D = 'd'
E = 'e'

@parser
@start s = x A
         | x B
         | y+ C
         | z? D
         | @error E
x = E
y = E
z = E
"""
# terminals: EOF 0 ERROR 1 A 2 B 3 C 4 D 5 E 6
SENTENCES = {"xa": [6, 2], "xb": [6, 3], "yyc": [6, 6, 4], "zd": [6, 5], "d": [5], "err": [2, 6]}


def render(cfg, pkg):
    """cfg: {rx, ry, rz, rs, methods:[{name, rule, params:[type], rets:[type], body}]}"""
    decls = DECLS.replace("package u", "package " + pkg).replace("type Error struct {\n\tToken    Token\n\tExpected []int\n}\n", "")
    harness = HARNESS
    if cfg.get("imports"):
        decls = decls.replace("package " + pkg + "\n", "package " + pkg + "\n\nimport (\n" + "".join("\t%s \"xv/%s/%s\"\n" % (a, pkg, pth) for a, pth in cfg["imports"]) + ")\n", 1)
        harness = harness.replace("\tcase Token:\n\t\treturn x.Ty", cfg["mark_cases"] + "\tcase Token:\n\t\treturn x.Ty", 1)
    o = [decls, "type Parser struct{ lox }", harness]
    for m in cfg["methods"]:
        params = ", ".join("a%d %s" % (i, t) for i, t in enumerate(m["params"]))
        rets = m["rets"]
        rsig = rets[0] if len(rets) == 1 else "(" + ", ".join(rets) + ")"
        body = ["\tGot = append(Got, %d)" % m["id"]] + ["\tGot = append(Got, mark(a%d))" % i for i in range(len(m["params"]))]
        body.append("\treturn " + ", ".join(m["retexprs"]))
        o.append("func (p *Parser) %s(%s) %s {\n%s\n}\n" % (m["name"], params, rsig, "\n".join(body)))
    o.append(cfg.get("extra_go", ""))
    return "\n".join(o)


def method(mid, name, rule, params, ret, mk=7, rets=None):
    rets = rets or [ret]
    exprs = []
    for r in rets:
        if r == "int":
            exprs.append(str(mk))
        elif r == "error":
            exprs.append("nil")
        else:
            exprs.append(MK[r] % mk)
    return {"id": mid, "name": name, "rule": rule, "params": params, "rets": rets, "retexprs": exprs, "ret": ret}


def base_methods(rx, ry, rz, px, pys, pz, ptok="Token"):
    ms = [method(1, "on_s__x", "s", [px, ptok], "int", 1),
          method(2, "on_s__ys", "s", [pys, ptok], "int", 2),
          method(3, "on_s__z", "s", [pz, ptok], "int", 3),
          method(4, "on_s__err", "s", ["Error", ptok], "int", 4),
          method(5, "on_x", "x", ["Token"], rx, 7),
          method(6, "on_y", "y", ["Token"], ry, 8),
          method(7, "on_z", "z", ["Token"], rz, 9)]
    return ms


def configs(quick, rng, tix=None, rel=None):
    out = []

    def add(cid, rx, ry, rz, ms):
        out.append({"id": cid, "rx": rx, "ry": ry, "rz": rz, "methods": ms})
    # one dimension at a time around the exact configuration
    for rx in RET_TYPES:
        for px in PARAM_X:
            add("x:%s->%s" % (rx, px), rx, "Expr", "Dict", base_methods(rx, "Expr", "Dict", px, "[]Expr", "Dict"))
    for ry in ["*Node", "Expr", "any", "Box[int]", "Fn", "map[string]int", "NodeList", "Dict", "MyAny"]:
        for pys in PARAM_YS:
            add("ys:%s->%s" % (ry, pys), "*Node", ry, "Dict", base_methods("*Node", ry, "Dict", "*Node", pys, "Dict"))
    for rz in ["*Node", "Expr", "any", "Box[int]", "Fn", "NodeList"]:
        for pz in ["*Node", "Expr", "any", "NodePtr", "Box[int]", "Fn", "func() int", "NodeList", "[]*Node", "MyAny"]:
            add("z:%s->%s" % (rz, pz), "Dict", "Expr", rz, base_methods("Dict", "Expr", rz, "Dict", "[]Expr", pz))
    for ptok in ["Token", "any", "MyAny", "int", "Error"]:
        add("tok->%s" % ptok, "*Node", "Expr", "Dict", base_methods("*Node", "Expr", "Dict", "*Node", "[]Expr", "Dict", ptok))
    # the parameter that receives the @error term's value (an Error, not a Token, although @error is a terminal)
    for perr in ["Error", "Token", "any", "MyAny", "int", "*Node", "Expr"]:
        ms = base_methods("*Node", "Expr", "Dict", "*Node", "[]Expr", "Dict")
        ms[3] = method(4, "on_s__err", "s", [perr, "Token"], "int", 4)
        add("err->%s" % perr, "*Node", "Expr", "Dict", ms)
    # a rule whose value type is Token next to the @error production: (Token, Token) and (Error, Token) are different bindings
    add("x:Token->Token", "Token", "Expr", "Dict", base_methods("Token", "Expr", "Dict", "Token", "[]Expr", "Dict"))
    add("x:Token->any", "Token", "Expr", "Dict", base_methods("Token", "Expr", "Dict", "any", "[]Expr", "Dict"))
    # layouts
    b = lambda: base_methods("*Node", "Expr", "Dict", "Expr", "[]Expr", "Dict")
    ms = b(); ms.append(method(8, "on_s__x2", "s", ["*Node", "Token"], "int", 1)); add("layout:ambiguous", "*Node", "Expr", "Dict", ms)
    ms = b(); ms.append(method(8, "on_s__x2", "s", ["any", "any"], "int", 1)); add("layout:ambiguous-any", "*Node", "Expr", "Dict", ms)
    ms = [m for m in b() if m["id"] != 2]; add("layout:missing-prod-method", "*Node", "Expr", "Dict", ms)
    ms = [m for m in b() if m["id"] != 6]; add("layout:missing-rule-method", "*Node", "Expr", "Dict", ms)
    ms = b(); ms.append(method(8, "on_s__orphan", "s", ["Token", "Token", "Token"], "int", 1)); add("layout:orphan-arity", "*Node", "Expr", "Dict", ms)
    ms = b(); ms.append(method(8, "on_s__orphan2", "s", ["*Other", "Token"], "int", 1)); add("layout:orphan-type", "*Node", "Expr", "Dict", ms)
    ms = b(); ms.append(method(8, "on_nosuch", "nosuch", ["Token"], "int", 1)); add("layout:unknown-rule", "*Node", "Expr", "Dict", ms)
    ms = b(); ms[0] = method(1, "on_s__x", "s", ["Expr", "Token"], "*Node", 1); add("layout:two-return-types", "*Node", "Expr", "Dict", ms)
    # the methods of one rule must return ONE type (identity, not a shared underlying type or mutual assignability)
    for t1, t2 in (("Dict", "map[string]int"), ("map[string]int", "Dict"), ("Fn", "func() int"), ("NodeList", "[]*Node"), ("MyAny", "any"),
                   ("any", "Expr"), ("NodePtr", "*Node"), ("*Node", "NodePtr"), ("Dict", "Dict"), ("Expr", "*Node"), ("int", "Dict")):
        ms = b()
        for k in range(4):
            ms[k] = method(ms[k]["id"], ms[k]["name"], "s", ms[k]["params"], t1 if k == 2 else t2, k + 1)
        add("layout:rets:%s/%s" % (t1, t2), "*Node", "Expr", "Dict", ms)
    ms = b(); ms[4] = method(5, "on_x", "x", ["Token"], "*Node", 7, rets=["*Node", "error"]); add("layout:two-results", "*Node", "Expr", "Dict", ms)
    ms = b(); ms.append(method(8, "on_x__b", "x", ["Token"], "Expr", 7)); add("layout:rule-two-types-ambiguous", "*Node", "Expr", "Dict", ms)
    ms = b(); ms[0] = method(1, "on_s__x", "s", ["Expr"], "int", 1); add("layout:wrong-arity", "*Node", "Expr", "Dict", ms)
    ms = b(); ms.append(method(8, "helper_on_s", "", ["Token"], "int", 1)); add("layout:not-an-action-name", "*Node", "Expr", "Dict", ms)
    # configurations in which every production is bound, so lox must succeed -- and then the package has to compile
    ms = b(); add("compile:onbounds-ok", "*Node", "Expr", "Dict", ms); out[-1]["extra_go"] = "func (p *Parser) _onBounds(r any, b, e Token) {}\n"
    ms = b(); add("compile:onbounds-wrong-arity", "*Node", "Expr", "Dict", ms); out[-1]["extra_go"] = "func (p *Parser) _onBounds(r any) {}\n"
    ms = b(); add("compile:onbounds-wrong-types", "*Node", "Expr", "Dict", ms); out[-1]["extra_go"] = "func (p *Parser) _onBounds(r int, b, e string) {}\n"
    ms = b(); add("compile:onbounds-returns", "*Node", "Expr", "Dict", ms); out[-1]["extra_go"] = "func (p *Parser) _onBounds(r any, b, e Token) int { return 0 }\n"
    # x*! needs a Discard() bool method on the element type
    lox2 = "@lexer\nC = 'c'\nD = 'd'\nE = 'e'\n\n@parser\n@start s = y*! C | D\ny = E\n"
    for rid, rty in (("compile:starF-element-without-discard", "*Node"), ("compile:starF-element-with-discard", "*Disc")):
        ms = [method(1, "on_s__a", "s", ["[]" + rty, "Token"], "int", 1), method(2, "on_s__b", "s", ["Token"], "int", 2),
              method(6, "on_y", "y", ["Token"], "*Node", 8)]
        if rty == "*Disc":
            ms[2] = dict(ms[2]); ms[2]["rets"] = ["*Disc"]; ms[2]["retexprs"] = ["&Disc{}"]
        add(rid, "*Node", "*Node", "*Node", ms)
        out[-1]["lox"] = lox2
        out[-1]["extra_go"] = "type Disc struct{}\n\nfunc (d *Disc) Discard() bool { return false }\n"
    # rule result types from two imported packages that have the same package *name*
    MK["*fast.Node"] = "&fast.Node{M: %s}"
    MK["*bast.Node"] = "&bast.Node{M: %s}"
    for pid, px, pys in (("imports:same-name-packages-concrete", "*fast.Node", "[]*bast.Node"), ("imports:same-name-packages-iface", "Expr", "[]*bast.Node")):
        ms = base_methods("*fast.Node", "*bast.Node", "Dict", px, pys, "Dict")
        add(pid, "*fast.Node", "*bast.Node", "Dict", ms)
        out[-1]["imports"] = [("fast", "front/ast"), ("bast", "back/ast")]
        out[-1]["subpkgs"] = {"front/ast/ast.go": "package ast\n\ntype Node struct{ M int }\n\nfunc (n *Node) Mark() int { return n.M }\n",
                               "back/ast/ast.go": "package ast\n\ntype Node struct{ M int }\n\nfunc (n *Node) Mark() int { return n.M }\n"}
        out[-1]["mark_cases"] = ("\tcase *fast.Node:\n\t\tif x == nil {\n\t\t\treturn 0\n\t\t}\n\t\treturn x.M\n"
                                 "\tcase *bast.Node:\n\t\tif x == nil {\n\t\t\treturn 0\n\t\t}\n\t\treturn x.M\n"
                                 "\tcase []*fast.Node:\n\t\treturn marks(len(x), func(i int) any { return x[i] })\n"
                                 "\tcase []*bast.Node:\n\t\treturn marks(len(x), func(i int) any { return x[i] })\n")
        out[-1]["foreign"] = True
    # rule result types declared through aliases whose *target* the user's package cannot name: a facade alias to a type of an
    # internal package, and an exported alias to an unexported type.  Generated code has to spell the type the way the
    # programmer did (the alias), or it does not compile
    MK["*syntax.Node"] = "syntax.NewNode(%s)"
    MK["syntax.Label"] = "syntax.NewLabel(%s)"
    for pid, rx, ry, px, pys in (("imports:alias-to-internal-type", "*syntax.Node", "*syntax.Node", "*syntax.Node", "[]*syntax.Node"),
                                 ("imports:alias-to-unexported-type", "syntax.Label", "syntax.Label", "syntax.Label", "[]syntax.Label"),
                                 ("imports:alias-mixed", "*syntax.Node", "syntax.Label", "*syntax.Node", "[]syntax.Label")):
        ms = base_methods(rx, ry, "Dict", px, pys, "Dict")
        add(pid, rx, ry, "Dict", ms)
        out[-1]["imports"] = [("syntax", "syntax")]
        out[-1]["subpkgs"] = {
            "syntax/syntax.go": "package syntax\n\nimport \"xv/PKGNAME/syntax/internal/tree\"\n\ntype Node = tree.Node\n\ntype label struct{ M int }\n\n"
                                "type Label = label\n\nfunc NewNode(m int) *Node { return &tree.Node{M: m} }\n\nfunc NewLabel(m int) Label { return label{M: m} }\n\n"
                                "func MarkOf(l Label) int { return l.M }\n",
            "syntax/internal/tree/tree.go": "package tree\n\ntype Node struct{ M int }\n"}
        out[-1]["mark_cases"] = ("\tcase *syntax.Node:\n\t\tif x == nil {\n\t\t\treturn 0\n\t\t}\n\t\treturn x.M\n"
                                 "\tcase syntax.Label:\n\t\treturn syntax.MarkOf(x)\n"
                                 "\tcase []*syntax.Node:\n\t\treturn marks(len(x), func(i int) any { return x[i] })\n"
                                 "\tcase []syntax.Label:\n\t\treturn marks(len(x), func(i int) any { return x[i] })\n")
        out[-1]["foreign"] = True
    if quick:
        keep = [c for c in out if c["id"].startswith("layout") or c["id"].startswith("imports") or c["id"].startswith("tok") or c["id"].startswith("compile")
                or c["id"].startswith("err->") or c["id"].startswith("x:Token")]
        rest = [c for c in out if c not in keep]
        # always keep the configurations where the term's value type is assignable to, but not identical with, the parameter type
        def interesting(c):
            k, rest_ = c["id"].split(":", 1)
            src, dst = rest_.split("->")
            if k == "ys":
                src = "[]" + src
            a, b = tix.get(src), tix.get(dst)
            return a and b and rel["assignable"][a - 1][b - 1] and not rel["identical"][a - 1][b - 1]
        must = [c for c in rest if interesting(c)]
        others = [c for c in rest if c not in must]
        rng.shuffle(others)
        out = keep + must + others[:40]
    return out


def c06(tier):
    rep = Report("C06", tier)
    sc = scratch("c06")
    rng = random.Random(seed())
    quick = tier == "quick"
    lox = build_lox(sc)
    tool = build_tool(sc, "gotypes")
    p = subprocess.run([tool], input=json.dumps({"decls": DECLS, "types": UNIVERSE}).encode(), stdout=subprocess.PIPE, stderr=subprocess.PIPE)
    if p.returncode != 0:
        raise Infra("gotypes failed: " + p.stderr.decode())
    rel = json.loads(p.stdout.decode())
    tix = {t: i + 1 for i, t in enumerate(UNIVERSE)}
    sliceof = [tix.get("[]" + t, 0) for t in UNIVERSE]
    cfgs = configs(quick, rng, tix, rel)
    mod = os.path.join(sc, "xvb")
    os.makedirs(mod, exist_ok=True)
    open(os.path.join(mod, "go.mod"), "w").write("module xv\n\ngo 1.23\n")

    def gen(arg):
        n, c = arg
        pkg = "b%04d" % n
        d = os.path.join(mod, pkg)
        os.makedirs(d, exist_ok=True)
        open(os.path.join(d, "g.lox"), "w").write(c.get("lox", LOX))
        open(os.path.join(d, "p.go"), "w").write(render(c, pkg))
        for rel, txt in (c.get("subpkgs") or {}).items():
            os.makedirs(os.path.dirname(os.path.join(d, rel)), exist_ok=True)
            open(os.path.join(d, rel), "w").write(txt.replace("PKGNAME", pkg))
        q = subprocess.run([lox, d], cwd=mod, env=GOENV, stdout=subprocess.PIPE, stderr=subprocess.PIPE, timeout=120)
        c["pkg"], c["dir"] = pkg, d
        c["ok"] = q.returncode == 0
        c["stderr"] = q.stderr.decode(errors="replace")
        c["panic"] = "panic:" in c["stderr"] or "goroutine " in c["stderr"]
        return c
    pmap(gen, list(enumerate(cfgs)))
    okc = [c for c in cfgs if c["ok"]]
    # build every accepted package (go vet = type check) and run the sentences
    main = ["package main", "", "import (", '\t"encoding/json"', '\t"os"']
    main += ['\t%s "xv/%s"' % (c["pkg"], c["pkg"]) for c in okc] + [")", "",
             "type res struct {", "\tOk  bool  `json:\"ok\"`", "\tGot []int `json:\"got\"`", "\tPan string `json:\"pan\"`", "}", "",
             "func main() {", "\tsent := map[string][]int{}", "\tjson.Unmarshal([]byte(os.Args[1]), &sent)",
             "\tout := map[string]map[string]res{}"]
    for c in okc:
        main += ["\tout[\"%s\"] = map[string]res{}" % c["pkg"], "\tfor k, w := range sent {",
                 "\t\tok, got, pan := %s.Run(w)" % c["pkg"], "\t\tout[\"%s\"][k] = res{ok, got, pan}" % c["pkg"], "\t}"]
    main += ["\tjson.NewEncoder(os.Stdout).Encode(out)", "}"]
    os.makedirs(os.path.join(mod, "runb"), exist_ok=True)
    open(os.path.join(mod, "runb", "main.go"), "w").write("\n".join(main) + "\n")
    # per-package build status first (a package that lox accepted but that does not compile is a finding, not an infra error)
    def build_one(c):
        q = subprocess.run(["go", "build", "./" + c["pkg"]], cwd=mod, env=GOENV, stdout=subprocess.PIPE, stderr=subprocess.PIPE, timeout=600)
        c["built"] = q.returncode == 0
        c["builderr"] = q.stderr.decode(errors="replace")[-600:]
    pmap(build_one, okc)
    good = [c for c in okc if c["built"]]
    runs = {}
    if good:
        src = open(os.path.join(mod, "runb", "main.go")).read()
        for c in okc:
            if not c["built"]:
                src = src.replace('\t%s "xv/%s"\n' % (c["pkg"], c["pkg"]), "")
                import re as _re
                src = _re.sub(r'\tout\["%s"\] = map\[string\]res\{\}\n\tfor k, w := range sent \{\n.*?\n.*?\n\t\}\n' % c["pkg"], "", src, flags=_re.S)
        open(os.path.join(mod, "runb", "main.go"), "w").write(src)
        exe = os.path.join(sc, "bin", "runb")
        q = run(["go", "build", "-o", exe, "./runb"], cwd=mod, check=False, timeout=900)
        if q.returncode != 0:
            raise Infra("binding runner does not build: " + q.stderr.decode()[-2000:])
        q = run([exe, json.dumps(SENTENCES)], timeout=300)
        runs = json.loads(q.stdout.decode())
    # expected marks per sentence: method id then the marks of its arguments, in call order
    def vm(t, m):
        # mark of the value the harness makes for result type t with mark m
        return 1000 + m if t == "NodeList" else m

    def expected(c):
        MX, MY, MZ = vm(c["rx"], 7), vm(c["ry"], 8), vm(c["rz"], 9)
        mid = {m["name"]: m["id"] for m in c["methods"]}
        e = {}
        sx, sys_, sz, serr = 1, 2, 3, 4
        e["xa"] = [5, 6, sx, MX, 2]
        e["xb"] = [5, 6, sx, MX, 3]
        e["yyc"] = [6, 6, 6, 6, sys_, 2000 + MY * 1 + MY * 2, 4]
        e["zd"] = [7, 6, sz, MZ, 5]
        e["d"] = [sz, 0, 5]
        e["err"] = [serr, 902, 6]
        return e
    bcases = []
    for c in cfgs:
        ms = [{"rule": m["rule"] if m["rule"] else "?", "params": [tix.get(t, tix["int"]) for t in m["params"]], "nret": len(m["rets"]),
               "ret": tix.get(m["rets"][0], tix["int"])} for m in c["methods"] if m["name"].startswith("on_")]
        marks, exp = [], []
        if c["ok"] and c.get("built") and not c.get("lox"):
            e = expected(c)
            for k in sorted(SENTENCES):
                r = runs.get(c["pkg"], {}).get(k, {"ok": False, "got": [], "pan": "missing"})
                marks.append([1 if r["ok"] else 0] + (r["got"] or []))
                exp.append([1] + e[k])
        ob = "none"
        if c.get("foreign"):
            ob = "must-succeed"      # types outside the universe of Binding.tla: every production is bound by construction
        elif c.get("lox"):
            ob = "other-grammar"     # not the skeleton Binding.tla knows: only "if it succeeds it compiles" is asserted
        elif "onbounds" in c["id"]:
            ob = "ok" if c["id"].endswith("onbounds-ok") or c["id"].endswith("onbounds-returns") else "bad"
        bcases.append({"id": c["id"], "onbounds": ob, "methods": ms, "ruletype": {"s": tix["int"], "x": tix.get(c["rx"], tix["int"]), "y": tix.get(c["ry"], tix["int"]), "z": tix.get(c["rz"], tix["int"])},
                       "ok": c["ok"], "built": bool(c.get("built")), "marks": marks, "expmarks": exp})
    sd = spec_dir(sc, "spec-bind")
    json.dump({"types": UNIVERSE, "assignable": rel["assignable"], "identical": rel["identical"], "token": tix["Token"],
               "error": tix["Error"], "sliceof": sliceof}, open(os.path.join(sd, "binding_cfg.json"), "w"))
    json.dump(bcases, open(os.path.join(sd, "binding_cases.json"), "w"))
    r = tlc(sc, "Binding", cfg="Binding.cfg", cwd=sd, timeout=900)
    tlc_must(r, "Binding")
    if r.violation or r.distinct != 2 * len(bcases):
        raise Infra("Binding incomplete %s %d/%d\n%s" % (r.violation, r.distinct, 2 * len(bcases), r.out[-1500:]))
    nrej = 0
    for b in [l for l in r.lines if l.get("bind") == "bad"]:
        c = cfgs[b["c"]]
        bc = bcases[b["c"]]
        if c["panic"]:
            sig = "c06.panic:" + c["id"]
            desc = "lox panicked: " + c["stderr"][-300:]
        elif not b["agree"]:
            sig = "c06.%s:%s" % ("accepts-unbindable" if c["ok"] else "rejects-bindable", c["id"])
            desc = "configuration %s: lox %s, the documented rule says %s (%s); diagnostics: %s" % (
                c["id"], "succeeds" if c["ok"] else "fails", "succeed" if b["v"]["ok"] else "fail",
                [k for k, v in b["v"].items() if k != "ok" and not v], c["stderr"][-250:].replace("\n", " | "))
        elif not b["builds"]:
            sig = "c06.generated-code-does-not-compile:" + c["id"]
            desc = "configuration %s: lox succeeds but the package does not compile: %s" % (c["id"], c.get("builderr", "")[-300:])
        else:
            # which parameter lost its value?
            lost = []
            for got, exp in zip(bc["marks"], bc["expmarks"]):
                if got != exp:
                    lost.append((got, exp))
            zero = all(len(g) == len(e) and all(a == b_ or a == 0 for a, b_ in zip(g, e)) for g, e in lost)
            sig = "c06.assignable-parameter-receives-zero-value" if zero else "c06.values-do-not-flow:" + c["id"]
            desc = "configuration %s: action arguments (marks) %s, produced %s" % (c["id"], lost[0][0], lost[0][1])
        rep.failure(sig, desc, {"id": c["id"], "lox": LOX, "go": render(c, "p")[-3000:], "stderr": c["stderr"][-600:]})
    for c in cfgs:
        if not c["ok"]:
            nrej += 1
            # a diagnostic naming the production (file:line of g.lox) or the method
            named = "g.lox:" in c["stderr"] or any(m["name"] in c["stderr"] for m in c["methods"]) or "p.go:" in c["stderr"]
            if not named and not c["panic"]:
                rep.failure("c06.diagnostic-names-nothing:" + c["id"], "configuration %s fails without naming a production or method: %s" % (
                    c["id"], c["stderr"][-300:]), {"id": c["id"], "stderr": c["stderr"]})
    rep.coverage = {
        "evaluations": len(cfgs), "distinct_nontrivial": nrej,
        "rule": "skeleton s = x A | x B | y+ C | z? D | @error E over a universe of %d Go types (named/unnamed slices, maps and funcs, alias, "
                "interfaces, generic instantiations): result type of x/y/z x parameter type of the corresponding term, token parameter types, "
                "and method layouts (shared, ambiguous, missing, orphaned, unknown rule, two return types, two results, wrong arity); verdict by "
                "Binding.tla from go/types' assignability relation; accepted packages are compiled and six sentences are parsed with value marks; "
                "non-trivial = configuration lox rejects" % len(UNIVERSE),
        "accepted": len(okc), "built": len(good), "states": r.distinct, "transitions": r.states,
        "samples": [{"id": cfgs[0]["id"], "ok": cfgs[0]["ok"]}, {"id": cfgs[-1]["id"], "ok": cfgs[-1]["ok"], "stderr": cfgs[-1]["stderr"][-200:]}],
    }
    rep.assumptions = ["go/types computes assignability/identity (harness/cmd/gotypes)", "the Go type system itself is not modelled",
                       "imported (other-package) types are exercised by C13's first project only"]
    return rep.finish("exploration")
