"""C13 (deterministic, history-independent output) and C14 (checked-in generated files are a fixpoint)."""
import tempfile, json, os, random, shutil, subprocess, hashlib, itertools
from vlib import *
import pcase, grams, lcase, lgrams

SPECS = {}


def spec_files(name):
    """three user projects: two valid ones with different grammars, package names and Go file names that sort
    after / before base.gen.go, and one whose .lox is invalid"""
    if name == "s1":
        lox = """@lexer
NUM = [0-9]+
ADD = '+'
MUL = '*'
SEMI = ';'
OP = '(' @push_mode(Inner)
@mode Inner {
  CP = ')' @pop_mode
  INUM = [0-9]+
  IOP = '[' @push_mode(Deep)
}
@mode Deep {
  ICL = ']' @pop_mode
  DNUM = [0-9]+
}
@mode Unused {
  UTOK = 'u'
}
@frag ' '+ @discard

@parser
@start prog = stmt+
stmt = timed ';'
timed = boxed
boxed = expr
expr = expr '+' expr @left(1)
     | expr '*' expr @left(2)
     | OP INUM* inner? CP
     | NUM
inner = IOP DNUM ICL
"""
        go = """package calcpkg

import (
	"bytes"
	"strings"
	"text/scanner"
	"time"
)

type Token struct {
	Ty  int
	Str string
}

type calcParser struct {
	lox
	sb strings.Builder
}

func (p *calcParser) on_prog(ss []*strings.Builder) int { return len(ss) }
func (p *calcParser) on_stmt(t time.Duration, _ Token) *strings.Builder { return &p.sb }
func (p *calcParser) on_timed(b *bytes.Buffer) time.Duration { return time.Duration(b.Len()) }
func (p *calcParser) on_boxed(v int) *bytes.Buffer { return bytes.NewBufferString("x") }
func (p *calcParser) on_expr__bin(l int, op Token, r int) int { return l + r }
func (p *calcParser) on_expr__paren(o Token, xs []Token, in scanner.Position, c Token) int { return len(xs) }
func (p *calcParser) on_expr__num(t Token) int { return 1 }
func (p *calcParser) on_inner(_, _, _ Token) scanner.Position { return scanner.Position{} }
"""
        return {"g.lox": lox, "parser.go": go}
    if name == "s2":
        lox = """@lexer
STR = '"' ~["\\n]* '"'
COMMA = ','
OB = '['
CB = ']'
@frag [ \\n]+ @discard
@frag '//' .*? '\\n' @discard

@parser
@start value = STR
             | '[' @list(value, ',')? ']'
             | @error
"""
        go = """package jsonpkg

type Token struct{ Ty int }

type Value struct{ Kids []*Value }

type P struct{ lox }

func (p *P) on_value__str(t Token) *Value { return &Value{} }
func (p *P) on_value__arr(_ Token, vs []*Value, _ Token) *Value { return &Value{Kids: vs} }
func (p *P) on_value__err(e Error) *Value { return nil }
func (p *P) _onBounds(r any, b, e Token) {}
"""
        return {"j.lox": lox, "a.go": go}
    if name == "s3":
        f = dict(spec_files("s1"))
        f["g.lox"] = f["g.lox"].replace("NUM = [0-9]+", "NUM = [0-9+", 1)
        return f
    # siblings of s1: the next edit of the same project.  Same package, same file names; each changes as little as possible,
    # so that a generator that decides "nothing changed here" from an incomplete summary of its inputs is exposed
    if name == "s4":      # the same token names declared in another order (numbering changes, the set of names does not)
        f = dict(spec_files("s1"))
        t = f["g.lox"]
        t = t.replace("NUM = [0-9]+\nADD = '+'\nMUL = '*'\nSEMI = ';'\n", "SEMI = ';'\nMUL = '*'\nNUM = [0-9]+\nADD = '+'\n", 1)
        t = t.replace("  CP = ')' @pop_mode\n  INUM = [0-9]+\n", "  INUM = [0-9]+\n  CP = ')' @pop_mode\n", 1)
        assert t != f["g.lox"]
        f["g.lox"] = t
        return f
    if name == "s5":      # only a lexical expression changes (names, order, grammar, Go sources identical)
        f = dict(spec_files("s1"))
        t = f["g.lox"].replace("NUM = [0-9]+\n", "NUM = [0-9]+ ('.' [0-9]+)?\n", 1)
        assert t != f["g.lox"]
        f["g.lox"] = t
        return f
    if name == "s6":      # only the precedence levels of two productions change (lexer, names, Go sources identical)
        f = dict(spec_files("s1"))
        t = f["g.lox"].replace("expr '+' expr @left(1)", "expr '+' expr @left(2)", 1).replace("expr '*' expr @left(2)", "expr '*' expr @left(1)", 1)
        assert t != f["g.lox"]
        f["g.lox"] = t
        return f
    if name == "s7":      # only the Go sources change: another result type for one rule (other import set)
        f = dict(spec_files("s1"))
        t = f["parser.go"].replace("func (p *calcParser) on_timed(b *bytes.Buffer) time.Duration { return time.Duration(b.Len()) }",
                                   "func (p *calcParser) on_timed(b *strings.Reader) time.Duration { return time.Duration(b.Len()) }", 1)
        t = t.replace("func (p *calcParser) on_boxed(v int) *bytes.Buffer { return bytes.NewBufferString(\"x\") }",
                      "func (p *calcParser) on_boxed(v int) *strings.Reader { return strings.NewReader(\"x\") }", 1)
        t = t.replace('\t"bytes"\n', "", 1)
        assert t != f["parser.go"]
        f["parser.go"] = t
        return f
    raise KeyError(name)


VALID = ["s1", "s2", "s4", "s5", "s6", "s7"]
VALID_TLA = "{" + ", ".join('"%s"' % v for v in VALID) + "}"
GENFILES = {"base": "base.gen.go", "lexer": "lexer.gen.go", "parser": "parser.gen.go"}
JUNK = b"@@@ this is not Go \x00\xff\n"
PKGX = b"package otherpkg\n\nvar Leftover = 1\n"


def new_project(root, name):
    mod = os.path.join(root, name)
    os.makedirs(os.path.join(mod, "proj"), exist_ok=True)
    open(os.path.join(mod, "go.mod"), "w").write("module xv\n\ngo 1.23\n")
    return mod, os.path.join(mod, "proj")


def set_source(proj, s):
    for fn in os.listdir(proj):
        if fn.endswith(".lox") or (fn.endswith(".go") and not fn.endswith(".gen.go")):
            os.remove(os.path.join(proj, fn))
    for fn, txt in spec_files(s).items():
        open(os.path.join(proj, fn), "w").write(txt)


def run_gen(lox, mod, proj, cwd, rep, elsewhere):
    if cwd == "inside":
        cmd, wd = [lox] + (["--report"] if rep else []) + ["."], proj
    elif cwd == "parent":
        cmd, wd = [lox] + (["--report"] if rep else []) + [os.path.relpath(proj, mod)], mod
    else:
        cmd, wd = [lox] + (["--report"] if rep else []) + [proj], elsewhere
    try:
        p = subprocess.run(cmd, cwd=wd, env=GOENV, stdout=subprocess.PIPE, stderr=subprocess.PIPE, timeout=120)
        return p.returncode, p.stdout, p.stderr.decode(errors="replace")
    except subprocess.TimeoutExpired:
        return -9, b"", "timeout"


def read_gen(proj):
    out = {}
    for k, fn in GENFILES.items():
        p = os.path.join(proj, fn)
        out[k] = open(p, "rb").read() if os.path.exists(p) else None
    return out


def reference_outputs(sc, lox):
    """Out(s) and Report(s): a fresh-directory generation"""
    ref = {}
    for s in VALID:
        mod, proj = new_project(os.path.join(sc, "ref-" + s), "m")
        set_source(proj, s)
        rc, out, err = run_gen(lox, mod, proj, "inside", True, sc)
        if rc != 0:
            raise Infra("reference generation of %s failed: %s" % (s, err))
        ref[s] = {"files": read_gen(proj), "report": out}
    return ref


def classify(content, ref):
    if content is None:
        return "absent"
    if content == JUNK:
        return "junk"
    if content == PKGX:
        return "pkgx"
    return None


def observe(proj, ref, k):
    c = read_gen(proj)[k]
    cl = classify(c, ref)
    if cl:
        return [cl]
    # sibling specifications may share a file byte for byte: the observation is the set of specifications it equals
    return [s for s, r in ref.items() if c == r["files"][k]] or ["other"]


def replay_history(sc, lox, ref, hist, n):
    root = os.path.join(sc, "hist-%d" % n)
    mod, proj = new_project(root, "m")
    elsewhere = os.path.join(root, "elsewhere")
    os.makedirs(elsewhere, exist_ok=True)
    set_source(proj, hist["init"])
    steps = []
    for st in hist["steps"]:
        exit_, rep = 0, ["none"]
        if st["op"] == "gen":
            rc, out, err = run_gen(lox, mod, proj, st["cwd"], st["rep"], elsewhere)
            exit_ = rc
            st["stderr"] = err[-600:]
            if st["rep"] and rc == 0:
                rep = [s for s, r in ref.items() if out == r["report"]] or ["other"]
            elif out.strip() and not st["rep"]:
                rep = ["unexpected-output"]
        elif st["op"] == "set":
            set_source(proj, st["s"])
        elif st["op"] == "del":
            os.remove(os.path.join(proj, GENFILES[st["f"]]))
        elif st["op"] == "corrupt":
            open(os.path.join(proj, GENFILES[st["f"]]), "wb").write(JUNK if st["k"] == "junk" else PKGX)
        elif st["op"] == "stale":
            open(os.path.join(proj, GENFILES[st["f"]]), "wb").write(ref[st["s"]]["files"][st["f"]])
        st["obs"] = {"base": observe(proj, ref, "base"), "lexer": observe(proj, ref, "lexer"),
                     "parser": observe(proj, ref, "parser"), "exit": exit_, "report": rep}
        steps.append(st)
    shutil.rmtree(root, ignore_errors=True)
    return hist


def op_alphabet(valid=("s1", "s2")):
    ops = []
    for f in ("base", "lexer", "parser"):
        ops.append({"op": "del", "f": f})
        for k in ("junk", "pkgx"):
            ops.append({"op": "corrupt", "f": f, "k": k})
        for s in valid:
            ops.append({"op": "stale", "f": f, "s": s})
    for s in list(valid) + ["s3"]:
        ops.append({"op": "set", "s": s})
    return ops


SIBLINGS = ["s1", "s4", "s5", "s6", "s7"]


def norm_step(st):
    d = {"op": st["op"], "cwd": st.get("cwd", "inside"), "rep": bool(st.get("rep", False)), "s": st.get("s", "s1"),
         "f": st.get("f", "base"), "k": st.get("k", "junk")}
    if "obs" in st:
        d["obs"] = st["obs"]
    return d


def histories(quick, rng):
    ops = op_alphabet()
    gens = [{"op": "gen", "cwd": c, "rep": r} for c in ("inside", "parent", "elsewhere") for r in (False, True)]
    H = []
    k = 0
    for init in ("s1", "s2", "s3"):
        for o in ops:
            g = gens[k % len(gens)]; k += 1
            H.append({"init": init, "steps": [dict(gens[0]), dict(o), dict(g)]})
            H.append({"init": init, "steps": [dict(o), dict(g)]})
        H.append({"init": init, "steps": [dict(g) for g in gens]})
    pairs = [(a, b) for a in ops for b in ops]
    if quick:
        rng.shuffle(pairs)
        pairs = pairs[:30]
    for a, b in pairs:
        g = gens[k % len(gens)]; k += 1
        H.append({"init": ("s1", "s2", "s3")[k % 3], "steps": [dict(gens[k % 2]), dict(a), dict(b), dict(g)]})
    # the next edit of the same project (sibling specifications): regenerate over the previous output; one stale file of a sibling
    sib = []
    for a in SIBLINGS:
        for b in SIBLINGS:
            if a != b:
                g = gens[k % len(gens)]; k += 1
                sib.append({"init": a, "steps": [dict(gens[0]), {"op": "set", "s": b}, dict(g)]})
    st = []
    for a in SIBLINGS:
        for b in SIBLINGS:
            if a != b:
                for f in ("base", "lexer", "parser"):
                    g = gens[k % len(gens)]; k += 1
                    st.append({"init": a, "steps": [{"op": "stale", "f": f, "s": b}, dict(g)]})
    if quick:
        rng.shuffle(st)
        st = st[:20]
    H += sib + st
    # keep only histories whose steps are enabled in the model is decided by TLC; drop obviously disabled ones here
    return H


def c13(tier):
    rep = Report("C13", tier)
    sc = scratch("c13")
    rng = random.Random(seed())
    quick = tier == "quick"
    lox = build_lox(sc)
    ref = reference_outputs(sc, lox)
    # ---- the model's own properties, exhaustively
    sd = spec_dir(sc, "spec-gd")
    open(os.path.join(sd, "GenDirMC.cfg"), "w").write(
        'SPECIFICATION Spec\nCONSTANTS\n  Valid = %s\n  Invalid = {"s3"}\n  MaxSteps = %d\n'
        'INVARIANT AfterGen\nPROPERTY FixedPoint\nCHECK_DEADLOCK FALSE\n' % (VALID_TLA, 3 if quick else 4))
    rm = tlc(sc, "GenDir", cfg="GenDirMC.cfg", cwd=sd, timeout=1800)
    tlc_must(rm, "GenDir")
    if rm.violation:
        raise Infra("GenDir.tla violates its own property: " + rm.violation)
    # ---- histories on the real generator
    H = histories(quick, rng)

    def enabled_prefilter(h):
        # drop steps the model disables trivially (delete of an absent file, set to the same source)
        src = h["init"]
        gen = {"base": "absent", "lexer": "absent", "parser": "absent"}
        out = []
        for st in h["steps"]:
            if st["op"] == "set":
                if st["s"] == src:
                    continue
                src = st["s"]
            elif st["op"] == "del":
                if gen[st["f"]] == "absent":
                    continue
                gen[st["f"]] = "absent"
            elif st["op"] == "corrupt":
                if gen[st["f"]] == st["k"]:
                    continue
                gen[st["f"]] = st["k"]
            elif st["op"] == "stale":
                if gen[st["f"]] == st["s"] or st["s"] == src:
                    continue
                gen[st["f"]] = st["s"]
            elif st["op"] == "gen":
                if src in VALID:
                    gen = {k: src for k in gen}
            out.append(st)
        h["steps"] = out
        return h
    H = [enabled_prefilter(h) for h in H]
    H = [h for h in H if h["steps"] and h["steps"][-1]["op"] == "gen"]
    seen, uniq = set(), []
    for h in H:
        key = json.dumps(h, sort_keys=True)
        if key not in seen:
            seen.add(key)
            uniq.append(h)
    H = uniq
    log("C13: %d histories" % len(H))
    done = pmap(lambda a: replay_history(sc, lox, ref, a[1], a[0]), list(enumerate(H)))
    hist = [{"init": h["init"], "steps": [norm_step(s) for s in h["steps"]]} for h in done]
    json.dump(hist, open(os.path.join(sd, "gendir_hist.json"), "w"))
    open(os.path.join(sd, "GenDirTrace.cfg"), "w").write(
        'SPECIFICATION TSpec\nCONSTANTS\n  Valid = %s\n  Invalid = {"s3"}\n  MaxSteps = 10\nCHECK_DEADLOCK FALSE\n' % VALID_TLA)
    rt = tlc(sc, "GenDirTrace", cfg="GenDirTrace.cfg", cwd=sd, timeout=1800)
    tlc_must(rt, "GenDirTrace")
    if rt.violation:
        raise Infra("GenDirTrace: " + rt.violation)
    rej = [l for l in rt.lines if "gd" in l]
    for b in rej:
        h = done[b["h"]]
        st = h["steps"][b["i"]]
        if b["gd"] == "notenabled":
            rep.note("history step not enabled in the model (harness error): %s" % json.dumps(h)[:300])
            continue
        desc = "history %s: after step %d the directory is %s, the model says %s" % (
            json.dumps([{k: v for k, v in s.items() if k not in ("obs", "stderr")} for s in h["steps"]]), b["i"],
            json.dumps(b["obs"]), json.dumps(b["model"]))
        # signature: what the last run depended on
        prev = [s for s in h["steps"][:b["i"]] if s["op"] != "gen"]
        stale_base = any(s["op"] in ("corrupt", "stale") and s.get("f") == "base" for s in prev) or \
            any(s["op"] == "set" for s in prev)
        sig = "c13.output-depends-on-history"
        if st["op"] == "gen" and st["obs"]["exit"] != 0 and stale_base and "base.gen.go" in st.get("stderr", "") + "base":
            sig = "c13.stale-base-gen-decides-package"
        rep.failure(sig, desc, {"history": h, "stderr": st.get("stderr")})
    # ---- repeated generation in separate processes (map iteration order is re-sampled, not enumerated)
    N = 8 if quick else 60
    rich = [(v, spec_files(v)) for v in (("s1", "s2") if quick else VALID)]
    nrep = 0
    for name, files in rich:
        def once(i):
            mod, proj = new_project(os.path.join(sc, "rep-%s-%d" % (name, i)), "m")
            for fn, txt in files.items():
                open(os.path.join(proj, fn), "w").write(txt)
            rc, out, err = run_gen(lox, mod, proj, "inside", True, sc)
            g = read_gen(proj)
            shutil.rmtree(os.path.dirname(mod), ignore_errors=True)
            return rc, hashlib.sha256(b"|".join((g[k] or b"") for k in sorted(g)) + b"|" + out).hexdigest()
        rs = pmap(once, list(range(N)))
        nrep += len(rs)
        if len(set(rs)) != 1:
            rep.failure("c13.nondeterministic-output:" + name, "%d generations of %s gave %d different outputs" % (N, name, len(set(rs))),
                        {"spec": files})
    # ---- a specification spread over several .lox files: the output is a function of the files, not of the order in which the
    # operating system lists them (ext4 lists by name hash, tmpfs by creation history): same files, different creation
    # orders, two file systems
    MF = {"b.lox": "@lexer\nWORD = [a-z]+\nNUMBER = [0-9]+\n@frag ' '+ @discard\n",
          "a.lox": "@lexer\nCOMMA = ','\nSEMI = ';'\nOP = '(' @push_mode(In)\n@mode In {\n  CP = ')' @pop_mode\n  INW = [a-z]+\n}\n",
          "c.lox": "@lexer\n@external EXT_A EXT_B\nHASH = '#'\n",
          "p.lox": "@parser\n@start s = @list(item, ',') ';'\nitem = WORD | NUMBER | OP INW* CP | HASH EXT_A\n",
          "act.go": "package proj\n\ntype Token struct{ Ty int }\n\ntype P struct{ lox }\n\n"
                    "func (p *P) on_s(xs []int, t Token) int { return len(xs) }\n"
                    "func (p *P) on_item(t Token) int { return 1 }\n"
                    "func (p *P) on_item__paren(o Token, ws []Token, c Token) int { return 2 }\n"
                    "func (p *P) on_item__ext(h Token, e Token) int { return 3 }\n"}
    orders = [sorted(MF), sorted(MF, reverse=True), ["p.lox", "c.lox", "act.go", "b.lox", "a.lox"], ["c.lox", "a.lox", "p.lox", "act.go", "b.lox"]]
    roots = [sc] + (["/dev/shm"] if os.path.isdir("/dev/shm") and os.access("/dev/shm", os.W_OK) else [])
    mfres = []
    for root in roots:
        base = tempfile.mkdtemp(prefix="verif-c13-", dir=root)
        try:
            for oi, order in enumerate(orders):
                mod, proj = new_project(os.path.join(base, "mf%d" % oi), "m")
                if oi == 3:      # directory history: a file created and removed before the real ones
                    open(os.path.join(proj, "0.lox"), "w").write("x")
                    os.remove(os.path.join(proj, "0.lox"))
                for fn in order:
                    open(os.path.join(proj, fn), "w").write(MF[fn])
                rc, out, err = run_gen(lox, mod, proj, "inside", True, sc)
                g = read_gen(proj)
                mfres.append((root, oi, rc, hashlib.sha256(b"|".join((g[k] or b"") for k in sorted(g)) + b"|" + out).hexdigest(), err[-300:]))
        finally:
            shutil.rmtree(base, ignore_errors=True)
    if any(r[2] != 0 for r in mfres):
        rep.failure("c13.multi-file-project-rejected", "a well-formed multi-file project is rejected: %s" % [r for r in mfres if r[2] != 0][0][4], {"files": MF})
    elif len({r[3] for r in mfres}) != 1:
        rep.failure("c13.output-depends-on-directory-listing-order",
                    "the same five files created in different orders / on different file systems give %d different outputs: %s" % (
                        len({r[3] for r in mfres}), [(r[0], r[1], r[3][:8]) for r in mfres]), {"files": MF, "orders": orders})
    nrep += len(mfres)
    sm = stable_map(rep, sc, quick)
    rep.coverage = {
        "multi_file_generations": len(mfres), "file_systems": roots, "stablemap": sm,
        "states": rm.distinct + rt.distinct, "transitions": rm.states + rt.states,
        "traces_validated_against_impl": len(hist) - len(rej),
        "evaluations": len(hist) + nrep, "distinct_nontrivial": len([h for h in hist if len(h["steps"]) >= 2]),
        "rule": "directory histories: [Gen,] op [, op], Gen over ops Delete/Corrupt(junk, other package)/Stale(output of another spec) "
                "per generated file and SetSource among two valid and one invalid project, from each initial source, with the working "
                "directory and --report varied; every history is replayed on the real lox binary and validated step by step against "
                "GenDir.tla; plus %d repeated generations per project in separate processes; non-trivial = history with >= 2 steps" % N,
        "histories": len(hist), "repetitions": nrep, "model_states": rm.distinct,
        "samples": [hist[0], hist[-1]],
    }
    rep.assumptions = ["TLC/SANY", "Go's map iteration order can only be re-sampled by repetition, not enumerated",
                       "Out(s) is taken from a fresh-directory generation by the same binary"]
    return rep.finish("model_checking")


def stable_map(rep, sc, quick):
    """the ordered map every construction iterates over: StableMap.tla model-checked; every operation sequence up to a depth
    replayed on the real stablemap.Map / MultiMap and validated step by step (StableMapTrace.tla)"""
    sd = spec_dir(sc, "spec-sm")
    r0 = tlc(sc, "StableMap", cfg="StableMap.cfg", cwd=sd, timeout=900)
    tlc_must(r0, "StableMap")
    if r0.violation:
        raise Infra("StableMap.tla violates its own property: " + r0.violation)
    depth = 3 if quick else 4
    keys, vals = [1, 2, 3], [7, 8]
    ops = [{"op": "put", "k": k, "v": v} for k in keys for v in vals] + [{"op": "remove", "k": k, "v": 0} for k in keys] + [{"op": "clear", "k": 0, "v": 0}]
    mops = [{"op": "add", "k": k, "v": v} for k in keys for v in vals] + [{"op": "remove", "k": k, "v": 0} for k in keys] + [{"op": "clear", "k": 0, "v": 0}]
    seqs = [list(s) for s in itertools.product(ops, repeat=depth)] + [list(s) for s in itertools.product(mops, repeat=depth) if any(o["op"] == "add" for o in s)]
    tool = build_tool(sc, "smapt")
    p = subprocess.run([tool], input=json.dumps({"universe": keys + [9], "seqs": seqs}).encode(), stdout=subprocess.PIPE, stderr=subprocess.PIPE, timeout=600)
    if p.returncode != 0:
        rep.failure("c13.stablemap-crash", "the ordered map panicked under an operation sequence: " + p.stderr.decode()[-400:], {"ops": "all sequences of depth %d" % depth})
        return {"sequences": len(seqs), "crashed": True}
    traces = json.loads(p.stdout.decode())
    # the property itself: what the map shows is a function of the operations applied (second process: other hash seeds)
    p2 = subprocess.run([tool], input=json.dumps({"universe": keys + [9], "seqs": seqs}).encode(), stdout=subprocess.PIPE, stderr=subprocess.PIPE, timeout=600)
    traces2 = json.loads(p2.stdout.decode()) if p2.returncode == 0 else None
    ndiff = 0
    if traces2 is None:
        rep.failure("c13.stablemap-crash", "the ordered map panicked in a second run of the same operation sequences", {})
    else:
        for sq, a, b in zip(seqs, traces, traces2):
            if a != b:
                ndiff += 1
                if ndiff <= 3:
                    rep.failure("c13.ordered-map-iteration-not-deterministic",
                                "stablemap shows different contents in two runs of %s: %s / %s" % (json.dumps(sq), json.dumps(a[-1]), json.dumps(b[-1])), {"ops": sq})
    nrej = 0
    CH = 40000
    states = 0
    for k0 in range(0, len(traces), CH):
        json.dump(traces[k0:k0 + CH], open(os.path.join(sd, "smap_traces.json"), "w"))
        json.dump(keys + [9], open(os.path.join(sd, "smap_universe.json"), "w"))
        rt = tlc(sc, "StableMapTrace", cfg="StableMapTrace.cfg", cwd=sd, timeout=1800)
        tlc_must(rt, "StableMapTrace")
        states += rt.distinct
        for l in rt.lines:
            if l.get("sm") == "rejected":
                nrej += 1
                if nrej == 1:
                    sq = seqs[k0 + l["t"]]
                    # another ordering discipline that is still a function of the operations is not a violation of C13
                    rep.note("DRIFT: stablemap is not the first-insertion-ordered map of StableMap.tla: after %s it shows keys %s values %s, the model %s" % (
                        json.dumps(sq[:l["i"] + 1]), l["obs"]["keys"], l["obs"]["vals"], json.dumps(l["model"])))
    return {"sequences": len(seqs), "depth": depth, "not_the_model": nrej, "nondeterministic": ndiff, "model_states": r0.distinct, "trace_states": states}


# =========================================================================== C14

def c14(tier):
    rep = Report("C14", tier)
    sc = scratch("c14")
    copy = os.path.join(sc, "repo")
    shutil.copytree(REPO, copy, ignore=shutil.ignore_patterns(".git"))
    lox = os.path.join(sc, "bin", "lox")
    os.makedirs(os.path.dirname(lox), exist_ok=True)
    p = run(["go", "build", "-o", lox, "./cmd/lox"], cwd=copy, check=False)
    if p.returncode != 0:
        raise Infra("lox does not build: " + p.stderr.decode()[-2000:])
    dirs = ["internal/parser", "examples/calc", "examples/jsonc", "examples/bolox"]
    hist = []
    # every directory is regenerated three times, the directory named as `.`, by a relative path from the repository root and
    # by an absolute path from elsewhere: the checked-in bytes must come back however the directory is spelled
    for d, cwd in [(d, cwd) for d in dirs for cwd in ("inside", "parent", "elsewhere")]:
        before = read_gen(os.path.join(copy, d))
        rc, out, err = run_gen(lox, copy, os.path.join(copy, d), cwd, False, sc)
        after = read_gen(os.path.join(copy, d))
        obs = {k: ("same" if before[k] == after[k] and before[k] is not None else ("absent" if after[k] is None else "changed")) for k in GENFILES}
        hist.append({"dir": d, "cwd": cwd, "exit": rc, "obs": obs, "stderr": err[-500:]})
        if rc != 0:
            rep.failure("c14.generation-fails:" + d, "lox fails on %s: %s" % (d, err[-300:]), {"dir": d, "stderr": err})
        for k in GENFILES:
            if obs[k] != "same":
                import difflib
                diff = "\n".join(list(difflib.unified_diff((before[k] or b"").decode(errors="replace").splitlines(),
                                                           (after[k] or b"").decode(errors="replace").splitlines(),
                                                           "checked-in", "regenerated", lineterm=""))[:60])
                rep.failure("c14.not-a-fixpoint:%s/%s" % (d, GENFILES[k]),
                            "regenerating %s changes %s" % (d, GENFILES[k]), {"dir": d, "file": GENFILES[k], "diff": diff})
    # the four one-step traces against GenDir: Gen on a directory that claims gen = Out(src) is a stutter on gen
    sd = spec_dir(sc, "spec-gd")
    H = []
    for h in hist:
        m = {"same": "s1", "changed": "other", "absent": "absent"}
        # Out(src) := the checked-in bytes; the observation "same" is the class s1
        H.append({"init": "s1", "steps": [{"op": "gen", "cwd": h["cwd"], "rep": False, "s": "s1", "f": "base", "k": "junk",
                                            "obs": {"base": [m[h["obs"]["base"]]], "lexer": [m[h["obs"]["lexer"]]], "parser": [m[h["obs"]["parser"]]],
                                                    "exit": h["exit"], "report": ["none"]}}]})
    json.dump(H, open(os.path.join(sd, "gendir_hist.json"), "w"))
    open(os.path.join(sd, "GenDirTrace.cfg"), "w").write(
        'SPECIFICATION TSpec\nCONSTANTS\n  Valid = {"s1", "s2"}\n  Invalid = {"s3"}\n  MaxSteps = 10\nCHECK_DEADLOCK FALSE\n')
    rt = tlc(sc, "GenDirTrace", cfg="GenDirTrace.cfg", cwd=sd, timeout=600)
    tlc_must(rt, "GenDirTrace")
    rej = [l for l in rt.lines if "gd" in l]
    if len(rej) != len([h for h in hist if h["exit"] != 0 or any(v != "same" for v in h["obs"].values())]):
        rep.note("GenDirTrace verdicts and byte comparison disagree: %s" % json.dumps(rej)[:300])
    rep.coverage = {
        "states": max(rt.distinct, 1), "transitions": max(rt.states, 1), "traces_validated_against_impl": len(hist) - len(rej),
        "evaluations": len(hist) * 3, "distinct_nontrivial": len(dirs) * 3,
        "rule": "the four directories with checked-in generated files (internal/parser, examples/calc, examples/jsonc, examples/bolox) "
                "x three files each; lox is built from a scratch copy of the working tree and run there; each file is compared byte for byte; "
                "every (directory, file) pair is a distinct case",
        "samples": hist, "exhaustive": True,
    }
    rep.assumptions = ["the specification's role is a one-step trace check (Gen on a state claiming gen = Out(src) leaves gen unchanged)"]
    return rep.finish("model_checking")
