"""Parser subjects: abstract grammar case -> .lox + Go harness package; run lox;
scrape the emitted tables; build one runner binary per batch; run inputs.

Abstract case (JSON):
  {id, terms:[NAME], rules:[{name, prods:[{terms:[T], prec:int, assoc:0|1}]}], start:int, bounds:bool}
  T = {k:"sym"|"opt"|"star"|"starF"|"plus", t:0|1, i:int}      t=1 terminal (index into terms), t=0 rule
    | {k:"list"|"listopt", t, i, st, si}
    | {k:"err"}
Terminal numbers in the generated code: EOF=0, ERROR=1, terms[i] = i+2.
"""
import json, os, re, shutil, subprocess
from vlib import *


def lit_for(i):
    # one distinct printable literal per terminal
    alphabet = "abcdefghijklmnopqrstuvwxyz0123456789"
    if i < len(alphabet):
        return alphabet[i]
    return "z" + str(i)


def term_text(case, T):
    def sym(t, i):
        return case["terms"][i] if t == 1 else case["rules"][i]["name"]
    k = T["k"]
    if k == "err":
        return "@error"
    s = sym(T["t"], T["i"])
    if k == "sym":
        return s
    if k == "opt":
        return s + "?"
    if k == "star":
        return s + "*"
    if k == "starF":
        return s + "*!"
    if k == "plus":
        return s + "+"
    if k == "list":
        return "@list(%s, %s)" % (s, sym(T["st"], T["si"]))
    if k == "listopt":
        return "@list(%s, %s)?" % (s, sym(T["st"], T["si"]))
    raise ValueError(k)


def render_lox(case):
    out = ["@lexer", ""]
    for i, t in enumerate(case["terms"]):
        out.append("%s = '%s'" % (t, lit_for(i)))
    out += ["", "@parser", ""]
    for ri, r in enumerate(case["rules"]):
        alts = []
        for p in r["prods"]:
            if not p["terms"]:
                alts.append("@empty")
                continue
            s = " ".join(term_text(case, T) for T in p["terms"])
            if p.get("prec", 0) > 0:
                s += "  @%s(%d)" % ("right" if p.get("assoc", 0) == 1 else "left", p["prec"])
            alts.append(s)
        head = ("@start " if ri == case["start"] else "") + r["name"] + " = "
        out.append(head + alts[0])
        for a in alts[1:]:
            out.append(" " * (len(head) - 2) + "| " + a)
        out.append("")
    return "\n".join(out) + "\n"


def go_elem_type(case, t, i):
    if t == 1:
        return "Token"
    # "uniform": every rule returns the same Go type, so that neighbouring stack entries have identical types
    # "valtypes": results are struct values whose Discard() has a pointer receiver (the method set of the value type is empty)
    if case.get("valtypes"):
        return "N_" + case["rules"][i]["name"]
    return "*N_u" if case.get("uniform") else "*N_" + case["rules"][i]["name"]


def go_term_type(case, T):
    k = T["k"]
    if k == "err":
        return "Error"
    e = go_elem_type(case, T["t"], T["i"])
    if k in ("sym", "opt"):
        return e
    if case.get("named_lists"):
        # a defined slice type: the term's value type []E is assignable to it, but it is not identical with it
        return "L_" + e.lstrip("*")
    return "[]" + e


def methods_of(case):
    """Group the productions of each rule by parameter-type tuple (lox needs
    exactly one matching method per production)."""
    methods = []  # {id, rule, name, params:[gotype], prods:[global prod index (user numbering)]}
    gp = 0
    for ri, r in enumerate(case["rules"]):
        by = {}
        for pi, p in enumerate(r["prods"]):
            sig = tuple(go_term_type(case, T) for T in p["terms"])
            if sig not in by:
                by[sig] = {"id": len(methods), "rule": ri, "params": list(sig), "prods": [],
                           "name": "on_%s__m%d" % (r["name"], len(by))}
                methods.append(by[sig])
            by[sig]["prods"].append([ri, pi])
            gp += 1
    return methods


def render_go(case, pkg):
    ms = methods_of(case)
    o = ["package %s" % pkg, "", 'import "xv/hk"', "", "type Token = hk.Token", "",
         "type Parser struct {", "\tlox", "\trec *hk.Rec", "}", ""]
    rnames = ["u"] if case.get("uniform") else [r["name"] for r in case["rules"]]
    for n in rnames:
        o += ["type N_%s struct{ hk.Node }" % n, "",
              "func (n *N_%s) Discard() bool { return n.NTok%%2 == 0 }" % n, ""]
    if case.get("named_lists"):
        o += ["type L_Token []Token", ""] + ["type L_N_%s []*N_%s\n" % (n, n) for n in rnames]
    for m in ms:
        rn = "u" if case.get("uniform") else case["rules"][m["rule"]]["name"]
        params = ", ".join("a%d %s" % (i, t) for i, t in enumerate(m["params"]))
        args = "".join(", val(a%d)" % i for i in range(len(m["params"])))
        if case.get("valtypes"):
            o += ["func (p *Parser) %s(%s) N_%s {" % (m["name"], params, rn),
                  "\tn := N_%s{}" % rn,
                  "\tp.rec.Act(%d, &n.Node%s)" % (m["id"], args),
                  "\treturn n", "}", ""]
            continue
        o += ["func (p *Parser) %s(%s) *N_%s {" % (m["name"], params, rn),
              "\tn := &N_%s{}" % rn,
              "\tp.rec.Act(%d, &n.Node%s)" % (m["id"], args),
              "\treturn n", "}", ""]
    o += ["func val(x any) hk.Val {", "\tswitch v := x.(type) {",
          "\tcase Token:", "\t\treturn hk.TokVal(v)",
          "\tcase Error:", "\t\treturn hk.ErrVal(v.Token, v.Expected)",
          "\tcase []Token:", "\t\tvs := make([]hk.Val, 0, len(v))",
          "\t\tfor _, e := range v {", "\t\t\tvs = append(vs, hk.TokVal(e))", "\t\t}",
          "\t\treturn hk.ListVal(vs)"]
    if case.get("named_lists"):
        o += ["\tcase L_Token:", "\t\treturn val([]Token(v))"]
        for n in rnames:
            o += ["\tcase L_N_%s:" % n, "\t\treturn val([]*N_%s(v))" % n]
    for n in (rnames if case.get("valtypes") else []):
        o += ["\tcase N_%s:" % n, "\t\treturn hk.NodeValV(v.Node)",
              "\tcase []N_%s:" % n, "\t\tvs := make([]hk.Val, 0, len(v))",
              "\t\tfor _, e := range v {", "\t\t\tvs = append(vs, val(e))", "\t\t}",
              "\t\treturn hk.ListVal(vs)"]
    for n in rnames:
        o += ["\tcase *N_%s:" % n, "\t\tif v == nil {", "\t\t\treturn hk.NodeVal(nil)", "\t\t}",
              "\t\treturn hk.NodeVal(&v.Node)",
              "\tcase []*N_%s:" % n, "\t\tvs := make([]hk.Val, 0, len(v))",
              "\t\tfor _, e := range v {", "\t\t\tvs = append(vs, val(e))", "\t\t}",
              "\t\treturn hk.ListVal(vs)"]
    o += ["\t}", '\treturn hk.Val{K: "?"}', "}", ""]
    if case.get("bounds"):
        o += ["func (p *Parser) _onBounds(r any, b, e Token) { p.rec.Bounds(val(r), b, e) }", ""]
    o += ["func Run(w []int, maxCalls int, progress *int64, gate func(int)) (res hk.RunResult) {",
          "\trec := &hk.Rec{MaxCall: maxCalls, Progress: progress}",
          "\tp := &Parser{rec: rec}",
          "\tlex := &hk.SliceLexer{W: w, R: rec, Peek: p.peek, Gate: gate}",
          "\tdefer func() {",
          "\t\tif e := recover(); e != nil {",
          "\t\t\tif _, ok := e.(hk.Budget); ok {", "\t\t\t\tres.Budget = true",
          "\t\t\t} else {", "\t\t\t\tres.Panic = hk.PanicString(e)", "\t\t\t}",
          "\t\t}", "\t\tres.Events = rec.Events", "\t}()",
          "\tok := p.parse(lex)", "\trec.Return(ok)", "\tres.Ok = ok", "\treturn", "}", ""]
    peek = ["//go:build peekstate", "", "package %s" % pkg, "",
            "func (p *Parser) peek() (int, int) {",
            "\tif len(p._stack) == 0 {", "\t\treturn -1, 0", "\t}",
            "\treturn int(p._stack.Peek(0).State), len(p._stack)", "}", ""]
    nopeek = ["//go:build !peekstate", "", "package %s" % pkg, "",
              "func (p *Parser) peek() (int, int) { return -1, -1 }", ""]
    return "\n".join(o), "\n".join(peek), "\n".join(nopeek), ms


# ---------------------------------------------------------------- scrape parser.gen.go

def _arr(src, name):
    m = re.search(r"var %s = \[\]u?int32\{(.*?)\n\}" % re.escape(name), src, re.S)
    if not m:
        raise Infra("array %s not found in generated file" % name)
    return [int(x) for x in re.findall(r"-?\d+", m.group(1))]


def scrape_parser(path):
    src = open(path).read()
    t = {"actions": _arr(src, "_actions"), "goto": _arr(src, "_goto"),
         "rules": _arr(src, "_rules"), "termCounts": _arr(src, "_termCounts")}
    m = re.search(r"const accept = (\d+)", src)
    t["accept"] = int(m.group(1)) if m else -1
    t["emitBounds"] = "Bounds _Bounds" in src.split("type lox struct")[0]
    # the _act switch: one shape per production
    m = re.search(r"func \(p \*\w+\) _act\(prod int32\) any \{\n\tswitch prod \{(.*?)\n\tdefault:", src, re.S)
    if not m:
        raise Infra("_act not found")
    body = m.group(1)
    shapes = {}
    parts = re.split(r"\n\tcase (\d+):", body)
    for k in range(1, len(parts), 2):
        idx, txt = int(parts[k]), parts[k + 1]
        peeks = [int(x) for x in re.findall(r"_stack\.Peek\((\d+)\)", txt)]
        mm = re.search(r"return p\.(on_\w+)\(", txt)
        if mm:
            shapes[idx] = {"k": "user", "m": mm.group(1), "pk": peeks}
        elif "Discard()" in txt:
            shapes[idx] = {"k": "appendF" if len(peeks) == 2 else "singleF", "m": "", "pk": peeks}
        elif "append(" in txt:
            shapes[idx] = {"k": "append", "m": "", "pk": peeks}
        elif "var zero" in txt:
            zt = re.search(r"var zero (\S+)", txt)
            shapes[idx] = {"k": "zeroL" if zt and zt.group(1).startswith("[]") else "zero", "m": "", "pk": []}
        elif re.search(r"return \[\]", txt):
            shapes[idx] = {"k": "single", "m": "", "pk": peeks}
        elif re.search(r"return _cast", txt):
            shapes[idx] = {"k": "pass", "m": "", "pk": peeks}
        else:
            shapes[idx] = {"k": "unknown", "m": "", "pk": peeks}
    n = len(t["rules"])
    t["shapes"] = [shapes.get(i, {"k": "none", "m": "", "pk": []}) for i in range(n)]
    return t


# ---------------------------------------------------------------- generate + build + run

def generate(sc, lox, mod, cases, want_report=False, timeout=120):
    """Render every case into mod/<pkg>/ and run the lox CLI on it.
    Adds case['gen'] = {exit, stderr, stdout?, ok, dir, pkg, methods, tables?}."""
    def one(arg):
        n, case = arg
        pkg = "c%04d" % n
        d = os.path.join(mod, pkg)
        os.makedirs(d, exist_ok=True)
        gosrc, peek, nopeek, ms = render_go(case, pkg)
        open(os.path.join(d, "g.lox"), "w").write(render_lox(case))
        open(os.path.join(d, "parser.go"), "w").write(gosrc)
        open(os.path.join(d, "peek.go"), "w").write(peek)
        open(os.path.join(d, "nopeek.go"), "w").write(nopeek)
        cmd = [lox] + (["--report"] if want_report else []) + [d]
        try:
            p = subprocess.run(cmd, cwd=mod, env=GOENV, stdout=subprocess.PIPE, stderr=subprocess.PIPE,
                               timeout=timeout)
            rc, err, out = p.returncode, p.stderr.decode(errors="replace"), p.stdout.decode(errors="replace")
        except subprocess.TimeoutExpired:
            rc, err, out = -9, "timeout", ""
        g = {"exit": rc, "stderr": err, "dir": d, "pkg": pkg, "methods": ms,
             "conflicts": "grammar has conflicts" in err,
             "panic": ("panic:" in err or "goroutine " in err)}
        if want_report:
            g["report"] = out
        g["ok"] = rc == 0
        if g["ok"]:
            g["tables"] = scrape_parser(os.path.join(d, "parser.gen.go"))
            # map method names (scraped) to the harness's method ids
            byname = {m["name"]: m["id"] for m in ms}
            for s in g["tables"]["shapes"]:
                s["mid"] = byname.get(s["m"], -1)
        case["gen"] = g
        return g
    pmap(one, list(enumerate(cases)))
    return cases


RUNNER = '''package main

import (
	"bufio"
	"encoding/json"
	"fmt"
	"os"
	"sync/atomic"
	"time"

	"xv/hk"
%(imports)s
)

type runFn func(w []int, maxCalls int, progress *int64, gate func(int)) hk.RunResult

var subjects = map[string]runFn{
%(table)s
}

type job struct {
	Case     string  `json:"case"`
	Alphabet []int   `json:"alphabet"`
	MaxLen   int     `json:"maxlen"`    // every string over Alphabet up to this length ...
	FullLen  int     `json:"fulllen"`   // ... with full event lists up to this length
	Extra    [][]int `json:"extra"`     // plus these (full events)
	Budget   int     `json:"budget"`    // callbacks allowed = Budget*(len+1)+Budget
}

type outRec struct {
	Case   string     `json:"case"`
	W      []int      `json:"w"`
	Ok     bool       `json:"ok"`
	Panic  string     `json:"panic"`
	Budget bool       `json:"budget"`
	Errs   []int      `json:"errs"`   // token index carried by each Error delivered to an action
	NAct   int        `json:"nact"`
	Events []hk.Event `json:"events,omitempty"`
}

var cur atomic.Value
var progress int64

func main() {
	jf, _ := os.Open(os.Args[1])
	var jobs []job
	if err := json.NewDecoder(jf).Decode(&jobs); err != nil {
		fmt.Fprintln(os.Stderr, err)
		os.Exit(2)
	}
	out := bufio.NewWriterSize(os.Stdout, 1<<20)
	enc := json.NewEncoder(out)
	// watchdog: a run that makes no callback for 10s is a silent spin
	go func() {
		last := int64(-1)
		for {
			time.Sleep(10 * time.Second)
			p := atomic.LoadInt64(&progress)
			if p == last {
				out.Flush()
				c, _ := cur.Load().(string)
				fmt.Fprintf(os.Stderr, "HANG %%s\\n", c)
				os.Exit(3)
			}
			last = p
		}
	}()
	for _, j := range jobs {
		fn := subjects[j.Case]
		if fn == nil {
			fmt.Fprintln(os.Stderr, "unknown case", j.Case)
			os.Exit(2)
		}
		one := func(w []int, full bool) {
			ws, _ := json.Marshal(w)
			cur.Store(j.Case + " " + string(ws))
			atomic.AddInt64(&progress, 1)
			r := fn(w, j.Budget*(len(w)+1)+j.Budget, &progress, nil)
			o := outRec{Case: j.Case, W: append([]int{}, w...), Ok: r.Ok, Panic: r.Panic, Budget: r.Budget, Errs: []int{}}
			for _, e := range r.Events {
				if e.E == "act" {
					o.NAct++
					for _, a := range e.Args {
						if a.K == "x" {
							o.Errs = append(o.Errs, a.I)
						}
					}
				}
			}
			if full {
				o.Events = r.Events
			}
			enc.Encode(o)
		}
		var rec func(w []int)
		rec = func(w []int) {
			one(w, len(w) <= j.FullLen)
			if len(w) >= j.MaxLen {
				return
			}
			for _, a := range j.Alphabet {
				rec(append(w, a))
			}
		}
		if j.MaxLen >= 0 {
			rec([]int{})
		}
		for _, w := range j.Extra {
			one(w, true)
		}
	}
	out.Flush()
}
'''


def build_runner(sc, mod, cases, name="runp", tags="peekstate", race=False):
    ok = [c for c in cases if c["gen"]["ok"]]
    imports = "\n".join('\t%s "xv/%s"' % (c["gen"]["pkg"], c["gen"]["pkg"]) for c in ok)
    table = "\n".join('\t"%s": %s.Run,' % (c["gen"]["pkg"], c["gen"]["pkg"]) for c in ok)
    d = os.path.join(mod, name)
    os.makedirs(d, exist_ok=True)
    open(os.path.join(d, "main.go"), "w").write(RUNNER % {"imports": imports, "table": table})
    out = os.path.join(sc, "bin", name)
    os.makedirs(os.path.dirname(out), exist_ok=True)
    cmd = ["go", "build"] + (["-race"] if race else []) + ["-tags", tags, "-o", out, "./" + name]
    p = run(cmd, cwd=mod, check=False, env=GOENV_RACE if race else GOENV, timeout=900)
    if p.returncode != 0 and tags:
        log("runner build with tag %s failed, retrying without (stack peeking off):\n%s" % (
            tags, p.stderr.decode()[-1500:]))
        cmd = ["go", "build"] + (["-race"] if race else []) + ["-o", out, "./" + name]
        p = run(cmd, cwd=mod, check=False, env=GOENV_RACE if race else GOENV, timeout=900)
    if p.returncode != 0:
        raise Infra("generated subjects do not build:\n" + p.stderr.decode()[-4000:])
    return out


def run_jobs(sc, runner, jobs, timeout=600, shards=None):
    """Run jobs in parallel shards; returns list of output records and a list of hangs."""
    shards = shards or NCPU
    buckets = [[] for _ in range(shards)]
    for i, j in enumerate(jobs):
        buckets[i % shards].append(j)
    buckets = [b for b in buckets if b]

    def one(arg):
        k, b = arg
        jf = os.path.join(sc, "jobs-%d-%d.json" % (id(jobs) % 100000, k))
        json.dump(b, open(jf, "w"))
        try:
            p = subprocess.run([runner, jf], stdout=subprocess.PIPE, stderr=subprocess.PIPE, timeout=timeout)
        except subprocess.TimeoutExpired:
            raise Infra("runner timeout")
        recs = [json.loads(l) for l in p.stdout.decode().splitlines() if l.strip()]
        hang = None
        if p.returncode == 3:
            m = re.search(r"HANG (\S+) (\[.*\])", p.stderr.decode())
            hang = (m.group(1), json.loads(m.group(2))) if m else ("?", [])
        elif p.returncode != 0:
            raise Infra("runner failed: " + p.stderr.decode()[-2000:])
        return recs, hang
    res = pmap(one, list(enumerate(buckets)))
    recs, hangs = [], []
    for r, h in res:
        recs += r
        if h:
            hangs.append(h)
    return recs, hangs
