"""C10: emitted tables are faithful to the automata they encode."""
import json, os, random
from vlib import *
import pcase, lcase, grams, lgrams
from pfamily import tlc_case
from lfamily import tlc_lcase, run_product, tok_numbers, attach_construction, run_construct, run_nfaproduct
import props_lalr, props_parser as PP, props_lexer as PL


def codec_check(rep, sc):
    """TLC enumerates small row sequences; the real codec encodes them; TLC decodes and compares."""
    sd = spec_dir(sc, "spec-codec")
    json.dump({"phase": "gen"}, open(os.path.join(sd, "codec_phase.json"), "w"))
    json.dump({"cases": [], "outs": []}, open(os.path.join(sd, "codec_done.json"), "w"))
    r = tlc(sc, "TableCodec", cfg="TableCodec.cfg", cwd=sd, timeout=600, workers=1)
    tlc_must(r, "TableCodec gen")
    gen = [l for l in r.lines if "gen" in l]
    if not gen:
        raise Infra("TableCodec produced no cases\n" + r.out[-1500:])
    cases = gen[0]["gen"]
    tool = build_tool(sc, "codec")
    cf = os.path.join(sc, "codec_cases.json")
    json.dump(cases, open(cf, "w"))
    p = run([tool, cf], timeout=300)
    outs = json.loads(p.stdout.decode())
    json.dump({"phase": "check"}, open(os.path.join(sd, "codec_phase.json"), "w"))
    json.dump({"cases": cases, "outs": outs}, open(os.path.join(sd, "codec_done.json"), "w"))
    r2 = tlc(sc, "TableCodec", cfg="TableCodec.cfg", cwd=sd, timeout=900)
    tlc_must(r2, "TableCodec check")
    if r2.violation or r2.distinct != 2 * len(cases):
        raise Infra("TableCodec check incomplete: %s %d/%d" % (r2.violation, r2.distinct, 2 * len(cases)))
    for b in [l for l in r2.lines if l.get("codec") == "bad"]:
        rep.failure("c10.codec-roundtrip", "table codec: rows %s at indices %s encode to %s" % (
            b["c"]["rows"], b["c"]["idx"], b["o"]["i32"]), {"case": b["c"], "encoded": b["o"]})
    return len(cases), r2


def c10(tier):
    rep = Report("C10", tier)
    sc = scratch("c10")
    rng = random.Random(seed())
    quick = tier == "quick"
    lox = build_lox(sc)
    # ---- codec, small scope, through the verif hook
    ncodec, rc = codec_check(rep, sc)
    # ---- parser specifications
    pcases = grams.curated("lang") + grams.curated("err")[:6] + grams.curated_conflict() + \
        grams.random_grammars(seed() + 10, 40 if quick else 400, prefix="rnd10", sugar=0.3)
    for c in pcases:
        c["bounds"] = bool(rng.getrandbits(1))
    pmod = new_subject_module(sc, "xvp")
    pcase.generate(sc, lox, pmod, pcases)
    pacc = [c for c in pcases if c["gen"]["ok"]]
    pd = props_lalr.dump_dirs(sc, [c["gen"]["dir"] for c in pacc])
    # ---- lexer specifications
    lcs = json.loads(json.dumps(list(lgrams.CURATED_GREEDY) + list(lgrams.CURATED_MODES) + lgrams.ng_cases()[::7] + lgrams.ng_cases()[-8:]
                                + (lgrams.mode_name_variants() if not quick else lgrams.mode_name_variants()[(seed() % 5)::5])
                                + lgrams.nullable_cases() + lgrams.ng_whole_rule_cases() + lgrams.random_specs(seed() + 10, 30 if quick else 300)
                                + lgrams.range_triple_specs(random.Random(seed() + 23), 30 if quick else 400)
                                + (lgrams.card_nesting_specs() if not quick else lgrams.card_nesting_specs()[(seed() + 1) % 2::2])
                                + lgrams.keyword_specs(random.Random(seed() + 25), 36 if quick else 150)))
    lmod = new_subject_module(sc, "xvl", with_simplelexer=True)
    lcase.generate(sc, lox, lmod, lcs)
    lacc = [c for c in lcs if c["gen"]["ok"]]
    ld = props_lalr.dump_dirs(sc, [c["gen"]["dir"] for c in lacc], lalr=False)
    tcases, owners = [], []
    for c, d in zip(pacc, pd):
        if not d["ok"]:
            rep.note("dump failed for %s: %s %s" % (c["id"], d["panic"], d["diag"][:100]))
            continue
        t = c["gen"]["tables"]
        tcases.append({"id": c["id"], "haspar": True, "haslex": False,
                       "pt": {"actions": t["actions"], "goto": t["goto"], "rules": t["rules"], "termCounts": t["termCounts"], "accept": t["accept"]},
                       "g": {"rules": d["rules"], "prods": [{"lhs": p["lhs"], "rhs": p["rhs"]} for p in d["prods"]]},
                       "states": d["states"], "nterm": len(d["terminals"]), "lt": [], "modes": []})
        owners.append(("p", c))
    for c, d in zip(lacc, ld):
        if not d["ok"]:
            rep.note("dump failed for %s: %s %s" % (c["id"], d["panic"], d["diag"][:100]))
            continue
        tcases.append({"id": c["id"], "haspar": False, "haslex": True, "pt": {"actions": [], "goto": [], "rules": [], "termCounts": [], "accept": 0},
                       "g": {"rules": [], "prods": []}, "states": [], "nterm": len(d["terminals"]),
                       "lt": c["gen"]["tables"],
                       "modes": [{"name": m["name"], "states": [{"accept": s["accept"], "ng": s["ng"], "trans": s["trans"],
                                                                   "actions": s["actions"], "actmodes": s["actmodes"]} for s in m["states"]]}
                                 for m in sorted(d["modes"], key=lambda m: m["index"])]})
        owners.append(("l", c))
    # ---- the real specifications shipped with lox (large tables: multi-digit terminal and state numbers)
    real = ["internal/parser", "examples/calc", "examples/jsonc", "examples/bolox"]
    rd = props_lalr.dump_dirs(sc, [os.path.join(REPO, d) for d in real])
    for d, dmp in zip(real, rd):
        if not dmp["ok"]:
            rep.note("dump failed for %s: %s" % (d, dmp["diag"][:100]))
            continue
        pt = pcase.scrape_parser(os.path.join(REPO, d, "parser.gen.go"))
        lt = lcase.scrape_lexer(os.path.join(REPO, d, "lexer.gen.go"))
        tcases.append({"id": d, "haspar": True, "haslex": True,
                       "pt": {"actions": pt["actions"], "goto": pt["goto"], "rules": pt["rules"], "termCounts": pt["termCounts"], "accept": pt["accept"]},
                       "g": {"rules": dmp["rules"], "prods": [{"lhs": p["lhs"], "rhs": p["rhs"]} for p in dmp["prods"]]},
                       "states": dmp["states"], "nterm": len(dmp["terminals"]), "lt": lt,
                       "modes": [{"name": m["name"], "states": [{"accept": s["accept"], "ng": s["ng"], "trans": s["trans"],
                                                                   "actions": s["actions"], "actmodes": s["actmodes"]} for s in m["states"]]}
                                 for m in sorted(dmp["modes"], key=lambda m: m["index"])]})
        owners.append(("r", {"id": d}))
    sd = spec_dir(sc, "spec-tables")
    json.dump(tcases, open(os.path.join(sd, "tcases.json"), "w"))
    r = tlc(sc, "TableObs", cfg="TableObs.cfg", cwd=sd, timeout=2400)
    tlc_must(r, "TableObs")
    vs = {l["c"]: l for l in r.lines if l.get("tb") == "v"}
    if r.violation or len(vs) != len(tcases):
        raise Infra("TableObs judged %d of %d cases (%s)\n%s" % (len(vs), len(tcases), r.violation, r.out[-1500:]))
    for i, (kind, c) in enumerate(owners):
        v = vs[i]
        rp = PP.replay_of(c) if kind == "p" else (PL.lreplay(c) if kind == "l" else {"dir": c["id"]})
        if not (v["pwf"] and v["lwf"]):
            rep.failure("c10.table-ill-formed:" + c["id"], "%s: emitted %s table is not well formed (%s)" % (
                c["id"], {"p": "parser", "l": "lexer", "r": "parser/lexer"}[kind], json.dumps(v)), rp)
        elif not (v["pf"] and v["lf"]):
            rep.failure("c10.table-differs-from-automaton:" + c["id"], "%s: decoded %s rows differ from the constructed automaton" % (
                c["id"], {"p": "parser", "l": "lexer", "r": "parser/lexer"}[kind]), rp)
    # ---- lexer tables against the rules, all strings (as-built non-greedy meaning)
    lcases = [tlc_lcase(c) for c in lacc]
    # (a specification whose number of emitted mode tables differs from its number of modes was reported by TableObs above)
    jobs = [{"c": ci + 1, "m": mi + 1} for ci, c in enumerate(lacc) for mi in range(len(c["modes"]))
            if len(c["gen"].get("tables", [])) == len(c["modes"])]
    pbad, rp_ = run_product(sc, lcases, jobs, timeout=2400)
    for b in pbad:
        j = jobs[b["j"]]
        c = lacc[j["c"] - 1]
        if b["lp"] == "bad" and b.get("labels") and not b.get("ng"):
            sig = "c10.refinement-merges-across-ng-mark"
        else:
            sig = "c10.table-not-equivalent-to-rules:" + c["id"]
        rep.failure(sig, "spec %s mode %d: %s" % (c["id"], j["m"] - 1, json.dumps(b)[:300]), PL.lreplay(c, None, {"product": b}))
    # ---- the generator's own pipeline, stage by stage (LexConstruct.tla, NFAProduct.tla): Thompson NFA against the rules over
    # all strings; subset construction, partition refinement, picked actions and merged ranges against the DFA lox built.
    # The verdict of this property stays with TableObs / LexProduct above (what the emitted tables do); a disagreement here that
    # those do not confirm means lox no longer builds its automata the way the model says -- reported as DRIFT, with the stage.
    ccases, cjobs, cown = [], [], []
    for c, d in zip(lacc, ld):
        if not d["ok"]:
            continue
        try:
            rec = attach_construction(tlc_lcase(c), c, d)
        except Infra as e:
            rep.note("DRIFT: " + str(e))
            continue
        ccases.append(rec)
        for mi in range(len(rec["modes"])):
            cjobs.append({"c": len(ccases), "m": mi + 1})
            cown.append(c)
    njobs_rules = len(cjobs)
    for d, dmp in zip(real, rd):
        if dmp["ok"]:
            rec = attach_construction({"id": d}, {"id": d}, dmp)
            ccases.append(rec)
            for mi, n in enumerate(rec["nfa"]):
                cjobs.append({"c": len(ccases), "m": mi + 1})
                cown.append({"id": d})
    cvs, rcons = run_construct(sc, ccases, cjobs, timeout=3000)
    cby = {v["j"]: v for v in cvs}
    if len(cby) != len(cjobs):
        raise Infra("LexConstruct judged %d of %d jobs" % (len(cby), len(cjobs)))
    STAGES = ("norm", "total", "bij", "onto", "acc", "ng", "nfa", "cover", "pick")
    cdrift = [(cown[j], [k for k in STAGES if not v[k]]) for j, v in sorted(cby.items()) if not all(v[k] for k in STAGES)]
    nbad, rnp = run_nfaproduct(sc, ccases, cjobs[:njobs_rules], timeout=3000)
    ndrift = sorted({cown[b["j"]]["id"] for b in nbad})
    small = [cjobs[j] for j, v in sorted(cby.items()) if v["nsub"] <= 8][: (25 if quick else 120)]
    _, rmc = run_construct(sc, ccases, small, timeout=3000, tag="lconsmc", mc=True) if small else ([], TlcResult())
    if cdrift:
        rep.note("DRIFT: the DFA lox built is not the one LexConstruct derives from lox's own NFA for %d mode(s), e.g. %s: %s" % (
            len(cdrift), cdrift[0][0]["id"], ",".join(cdrift[0][1])))
    if ndrift:
        rep.note("DRIFT: the NFA lox built does not denote the rules (NFAProduct) for %d specification(s), e.g. %s: %s" % (
            len(ndrift), ndrift[0], json.dumps(nbad[0])[:300]))
    rep.coverage = {
        "construct_jobs": len(cjobs), "construct_drift": len(cdrift), "construct_merging_jobs": len([1 for v in cby.values() if v["merged"]]),
        "nfaproduct_jobs": njobs_rules, "nfaproduct_states": rnp.distinct, "nfaproduct_drift": len(ndrift),
        "construct_all_orders_jobs": len(small), "construct_all_orders_states": rmc.distinct,
        "programs": len(tcases), "disagreements_checked": len(tcases) + len(jobs) + ncodec,
        "evaluations": len(tcases) + ncodec, "distinct_nontrivial": len(tcases),
        "rule": "accepted parser specifications (curated + random, with and without _onBounds) and lexer specifications (greedy, "
                "modes, non-greedy, nullable, random): tables scraped from the generated files, automata dumped in-process; "
                "plus %d TLC-enumerated row sequences through the real codec; every case is a distinct specification" % ncodec,
        "parser_specs": len([1 for k, _ in owners if k == "p"]), "lexer_specs": len([1 for k, _ in owners if k == "l"]),
        "codec_cases": ncodec, "product_states": rp_.distinct, "product_jobs": len(jobs),
        "states": r.distinct + rp_.distinct + rc.distinct + rcons.distinct + rnp.distinct + rmc.distinct,
        "transitions": r.states + rp_.states + rc.states + rcons.states + rnp.states + rmc.states,
        "samples": [{"id": tcases[0]["id"], "actions": tcases[0]["pt"]["actions"][:40]},
                    {"id": tcases[-1]["id"], "mode0": tcases[-1]["lt"][0][:40] if tcases[-1]["lt"] else []}],
    }
    rep.assumptions = ["TLC/SANY", "harness/cmd/dump serialises lr1.ParserTable and mode.Mode DFAs faithfully",
                       "table scraper (regex over the generated Go text)", "verif-tag hook export_verif.go only forwards to table.AddRow/Array"]
    return rep.finish("translation_validation")
