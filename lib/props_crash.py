"""C12: the generator never crashes -- output or diagnostic, nothing else."""
import json, os, random, re, shutil, subprocess
from vlib import *
import props_gendir as GD

# a light project (no imports: `go list` stays fast) -- most of the 600+ runs of this check load it
GOOD_LOX = """@lexer
NUM = [0-9]+
ADD = '+'
MUL = '*'
OP = '(' @push_mode(Inner)
@mode Inner {
  CP = ')' @pop_mode
  INUM = [0-9]+
}
@frag ' '+ @discard

@parser
@start expr = expr '+' expr @left(1)
            | expr '*' expr @left(2)
            | OP INUM* CP
            | NUM
"""
GOOD_GO = """package calcpkg

type Token struct {
	Ty  int
	Str string
}

type calcParser struct {
	lox
	n int
}

func (p *calcParser) on_expr__bin(l int, op Token, r int) int { return l + r }
func (p *calcParser) on_expr__paren(o Token, xs []Token, c Token) int { return len(xs) }
func (p *calcParser) on_expr__num(t Token) int { return 1 }
"""
GOOD2_LOX = GD.spec_files("s2")["j.lox"]
GOOD2_GO = GD.spec_files("s2")["a.go"]

# ------------------------------------------------------------------ configuration faults

LOX_FAULTS = {
    "ok": (None, lambda: {"g.lox": GOOD_LOX}),
    "nolox": ("ParseLox", lambda: {}),
    "lexerr": ("ParseLox", lambda: {"g.lox": GOOD_LOX.replace("NUM = [0-9]+", "NUM = [0-9]+ \x01", 1)}),
    "synerr": ("ParseLox", lambda: {"g.lox": GOOD_LOX.replace("| NUM", "| | NUM", 1)}),
    "semerr": ("ParseLox", lambda: {"g.lox": GOOD_LOX.replace("| NUM", "| NUMBR", 1)}),
    "conflicts": ("ParseLox", lambda: {"g.lox": GOOD_LOX.replace(" @left(1)", "", 1)}),
    "twofiles-conflicting-actions": ("ParseLox", lambda: {"g.lox": GOOD_LOX, "h.lox": "@lexer\nPLUS2 = '+'\n"}),
    "twofiles-same-lexeme": ("ParseLox", lambda: {"g.lox": GOOD_LOX, "h.lox": "@lexer\nNUM2 = [0-9]+\n"}),
    "twofiles-dup-name": ("ParseLox", lambda: {"g.lox": GOOD_LOX, "h.lox": "@lexer\nNUM = 'n'\n"}),
    "twofiles-ok": (None, lambda: {"g.lox": GOOD_LOX, "h.lox": "@lexer\nEXTRA = 'x'\n"}),
    "empty-literal-parser-term": ("ParseLox", lambda: {"g.lox": GOOD_LOX.replace("| NUM", "| '' NUM", 1)}),
    "empty-literal-list-sep": ("ParseLox", lambda: {"g.lox": GOOD_LOX.replace("| NUM", "| @list(NUM, '')", 1)}),
    "empty-lox": ("", lambda: {"g.lox": ""}),
    "lexer-only": ("", lambda: {"g.lox": "@lexer\nA = 'a'\n"}),
}

GO_FAULTS = {
    "ok": (None, lambda: {"parser.go": GOOD_GO}),
    "nogo": ("PreParseGo", lambda: {}),
    "emptyfile": ("PreParseGo", lambda: {"parser.go": ""}),
    "gosyntax": ("PreParseGo", lambda: {"parser.go": GOOD_GO.replace("return l + r }", "return l + }", 1)}),
    "gosyntax-other-file": ("ParseGo", lambda: {"parser.go": GOOD_GO, "aaa.go": "package calcpkg\nfunc broken( {\n"}),
    "typeerror": ("ParseGo", lambda: {"parser.go": GOOD_GO.replace("return l + r }", "return l + \"x\" }", 1)}),
    "notoken": ("ParseGo", lambda: {"parser.go": GOOD_GO.replace("type Token struct", "type Tok struct", 1).replace("Token", "Tok")}),
    "noparser": ("ParseGo", lambda: {"parser.go": GOOD_GO.replace("\tlox\n", "\tx int\n", 1).replace("func (p *calcParser) on_", "func (p *calcParser) off_")}),
    "twoparsers": ("ParseGo", lambda: {"parser.go": GOOD_GO + "\ntype other struct{ lox }\n"}),
    "genericparser": ("ParseGo", lambda: {"parser.go": GOOD_GO.replace("type calcParser struct {", "type calcParser[T any] struct {", 1)
                                                     .replace("(p *calcParser)", "(p *calcParser[T])")}),
    "onlytest": ("", lambda: {"parser_test.go": GOOD_GO}),
    "missingaction": ("AssignActions", lambda: {"parser.go": GOOD_GO.replace("func (p *calcParser) on_expr__num(t Token) int { return 1 }", "")}),
    "ambiguousaction": ("AssignActions", lambda: {"parser.go": GOOD_GO + "\nfunc (p *calcParser) on_expr__num2(t Token) int { return 2 }\n"}),
    "orphanaction": ("AssignActions", lambda: {"parser.go": GOOD_GO + "\nfunc (p *calcParser) on_nosuch(t Token) int { return 2 }\n"}),
    "tworesults": ("AssignActions", lambda: {"parser.go": GOOD_GO.replace("func (p *calcParser) on_expr__num(t Token) int { return 1 }",
                                                                         "func (p *calcParser) on_expr__num(t Token) (int, error) { return 1, nil }")}),
    "badbounds": ("", lambda: {"parser.go": GOOD_GO + "\nfunc (p *calcParser) _onBounds(x int) {}\n"}),
    # return types of one rule's methods that are assignable to each other but not identical (both declaration orders)
    "rets-assignable-1": ("AssignActions", lambda: {"parser.go": GOOD_GO.replace("func (p *calcParser) on_expr__bin(l int, op Token, r int) int { return l + r }",
                                                                                 "func (p *calcParser) on_expr__bin(l int, op Token, r int) any { return l + r }")}),
    "rets-assignable-2": ("AssignActions", lambda: {"parser.go": GOOD_GO.replace("func (p *calcParser) on_expr__num(t Token) int { return 1 }",
                                                                                 "func (p *calcParser) on_expr__num(t Token) any { return 1 }")}),
    "rets-named-int": ("AssignActions", lambda: {"parser.go": GOOD_GO.replace("func (p *calcParser) on_expr__num(t Token) int { return 1 }",
                                                                              "type MyInt int\n\nfunc (p *calcParser) on_expr__num(t Token) MyInt { return 1 }")}),
}
STAGE_ORDER = ["ParseLox", "PreParseGo", "EmitBase", "EmitLexer", "ParseGo", "AssignActions", "EmitParser"]


def expected_stage(lf, gf):
    a, b = LOX_FAULTS[lf][0], GO_FAULTS[gf][0]
    if a == "" or b == "":
        return ""
    cands = [x for x in (a, b) if x]
    if not cands:
        return "none"
    return min(cands, key=STAGE_ORDER.index)


def config_cases():
    out = []
    for lf in LOX_FAULTS:
        for gf in GO_FAULTS:
            files = {}
            files.update(LOX_FAULTS[lf][1]())
            files.update(GO_FAULTS[gf][1]())
            out.append({"id": "cfg:%s+%s" % (lf, gf), "files": files, "want": expected_stage(lf, gf), "module": True})
    # directory outside any module, missing directory
    out.append({"id": "cfg:outside-module", "files": {"g.lox": GOOD_LOX, "parser.go": GOOD_GO}, "want": "ParseGo", "module": False})
    out.append({"id": "cfg:missing-dir", "files": None, "want": "ParseLox", "module": True})
    return out


# ------------------------------------------------------------------ grammar text inputs

# NOTE: no boundary lexeme is longer than 300 characters (see mutate_bytes)
BOUNDARY = ["@left(0)", "@right(0)", "@left(99999999999999999999)", "@left(2147483648)", "@left(-1)", "''", "'\\x'", "'\\xZZ'", "'\\u12'",
            "'\\U00110000'", "'\\UFFFFFFFF'", "[z-a]", "[]", "[a-]", "[\\u0000-\\U0010FFFF]", "~[\\u0000-\\U0010FFFF]", "@push_mode(", "@push_mode(Nope)",
            "@pop_mode", "@emit(NOPE)", "@emit(expr)", "@discard", "@frag", "@macro", "@mode", "@mode X {", "}", "{", "@start", "@empty", "@error",
            "@list(", "@list(NUM, NUM)", "@list(NUM, NUM)*", "@external", "@external NUM", "@frog", "@", "\\", "\\\n", "|", "=", "?", "*", "+", "*?", "+?", "*!",
            "(", ")", "-", "~", ".", ",", "EOF", "ERROR", "A__B", "A_", "_A", "a", "expr", "NUM", "9", "@lexer", "@parser", "\n", "\r", "\t", "//", "// x\n",
            "'", "[", "]", "\x00", "\xff\xfe", "\xc3", "é", "\U0001F600", "'\n'", "[\n]", "x" * 300]

TOKEN_RE = re.compile(r"'(?:\\.|[^'\\\n])*'|\[(?:\\.|[^\]\\\n])*\]|@\w+|\w+|\n|[ \t]+|//[^\n]*|.", re.S)


def mutate_tokens(rng, text):
    toks = TOKEN_RE.findall(text)
    if not toks:
        return text
    for _ in range(rng.choice([1, 1, 1, 2, 3])):
        op = rng.choice(["ins", "del", "rep", "swap", "dup"])
        i = rng.randrange(len(toks))
        if op == "ins":
            toks.insert(i, rng.choice(BOUNDARY))
        elif op == "del" and len(toks) > 1:
            del toks[i]
        elif op == "rep":
            toks[i] = rng.choice(BOUNDARY)
        elif op == "swap" and len(toks) > 1:
            j = rng.randrange(len(toks))
            toks[i], toks[j] = toks[j], toks[i]
        elif op == "dup":
            toks.insert(i, toks[i])
    return "".join(toks)


def mutate_bytes(rng, data):
    b = bytearray(data)
    for _ in range(rng.choice([1, 1, 2, 4])):
        op = rng.choice(["flip", "ins", "del", "trunc", "crlf", "nul", "long"])
        if not b:
            b = bytearray(b"@lexer\n")
        i = rng.randrange(len(b))
        if op == "flip":
            b[i] = rng.randrange(256)
        elif op == "ins":
            b[i:i] = bytes([rng.randrange(256) for _ in range(rng.randint(1, 4))])
        elif op == "del":
            del b[i:i + rng.randint(1, 8)]
        elif op == "trunc":
            del b[i:]
        elif op == "crlf":
            b = bytearray(bytes(b).replace(b"\n", b"\r"))
        elif op == "nul":
            b[i:i] = b"\x00"
        elif op == "long":
            # long, not huge: lox's construction is polynomial in the length of a literal (a 5 000-character literal
            # after `.*?` takes over a minute), and slowness is not what this property is about
            b[i:i] = b"A" * rng.choice([200, 400])
    return bytes(b)


def grammar_derived(rng, n):
    """sentences derived from lox's own grammar shape (sections, rules, terms), rendered with boundary lexemes"""
    out = []
    names_tok = ["A", "B", "NUM", "ID", "X1", "EOF", "ERROR", "A_B", "LONGNAME" * 5]
    names_rule = ["s", "expr", "a", "b", "x_y", "r1"]
    lex_terms = ["'a'", "'+'", "[a-z]", "[0-9]+", ".", "~[\\n]", "[a-z] - [aeiou]", "('a' | 'b')", "M", "'a'?", "'b'*", "'c'+?", ".*?", "'\\n'", "'\\''", "[\\-\\\\]"]
    actions = ["", "", " @discard", " @push_mode(M1)", " @pop_mode", " @emit(A)", " @push_mode()", " @push_mode(Nope)", " @emit(a)"]
    par_terms = ["A", "B", "NUM", "'+'", "'a'", "s", "expr", "a", "@error", "A?", "B*", "a+", "A*!", "@list(A, B)", "@list(a, '+')?", "@empty", "nope", "'zz'"]
    quals = ["", "", "", " @left(1)", " @right(2)", " @left(0)", " @left(1) @right(1)"]
    for _ in range(n):
        L = ["@lexer"]
        for _ in range(rng.randint(0, 5)):
            k = rng.random()
            e = " ".join(rng.choice(lex_terms) for _ in range(rng.randint(1, 3)))
            if rng.random() < 0.2:
                e += " | " + rng.choice(lex_terms)
            if k < 0.55:
                L.append("%s = %s%s" % (rng.choice(names_tok), e, rng.choice(actions)))
            elif k < 0.75:
                L.append("@frag %s%s" % (e, rng.choice(actions)))
            elif k < 0.85:
                L.append("@macro %s = %s" % (rng.choice(["M", "M2", "A"]), e))
            elif k < 0.93:
                L.append("@mode %s {\n  %s = %s @pop_mode\n}" % (rng.choice(["M1", "M2", "A"]), rng.choice(names_tok), rng.choice(lex_terms)))
            else:
                L.append("@external %s" % " ".join(rng.choice(names_tok) for _ in range(rng.randint(1, 3))))
        if rng.random() < 0.9:
            L.append("@parser")
            for ri in range(rng.randint(0, 3)):
                alts = []
                for _ in range(rng.randint(1, 3)):
                    alts.append(" ".join(rng.choice(par_terms) for _ in range(rng.randint(1, 3))) + rng.choice(quals))
                L.append("%s%s = %s" % ("@start " if ri == 0 and rng.random() < 0.9 else "", rng.choice(names_rule), "\n  | ".join(alts)))
        out.append("\n".join(L) + ("\n" if rng.random() < 0.9 else ""))
    return out


# ------------------------------------------------------------------ running

def run_case(sc, lox, n, case, tmo=60):
    root = os.path.join(sc, "c12-%d" % n)
    if case.get("module", True):
        mod, proj = GD.new_project(root, "m")
    else:
        proj = os.path.join(root, "nomod", "proj")
        os.makedirs(proj, exist_ok=True)
        mod = os.path.dirname(proj)
    if case["files"] is None:
        shutil.rmtree(proj)
    else:
        for fn, data in case["files"].items():
            mode = "wb" if isinstance(data, bytes) else "w"
            with open(os.path.join(proj, fn), mode) as f:
                f.write(data)
    env = dict(GOENV)
    if not case.get("module", True):
        env["GOFLAGS"] = "-mod=mod"
        env["GO111MODULE"] = "on"
    timeout = False
    try:
        p = subprocess.run([lox, proj], cwd=mod if os.path.isdir(mod) else sc, env=env, stdout=subprocess.PIPE, stderr=subprocess.PIPE, timeout=tmo)
        rc, err = p.returncode, p.stderr.decode(errors="replace")
    except subprocess.TimeoutExpired:
        rc, err, timeout = -9, "", True
    panic = ""
    if "panic:" in err or "goroutine " in err or "runtime error" in err:
        m = re.search(r"(github\.com/dcaiafa/lox/[\w/.\-]+\.[\w.()*\[\]]+)\(", err)
        panic = m.group(1) if m else "unknown-frame"
        # strip receiver decorations / generics for a stable signature
        panic = re.sub(r"\[\.\.\.\]", "", panic)
    lines = [l for l in err.splitlines() if l.strip() and not l.startswith("Error: errors ocurred")]
    obs = {"exit": rc, "ndiag": len(lines), "panic": panic, "timeout": timeout, "want": case.get("want", "")}
    for k, fn in GD.GENFILES.items():
        pth = os.path.join(proj, fn)
        if not os.path.exists(pth):
            obs[k] = "absent"
        else:
            q = subprocess.run(["gofmt", "-e", "-l", pth], stdout=subprocess.PIPE, stderr=subprocess.PIPE)
            obs[k] = "fresh" if q.returncode == 0 else "broken"
    shutil.rmtree(root, ignore_errors=True)
    case["obs"] = obs
    case["stderr"] = err[-1500:]
    return case


def c12(tier):
    rep = Report("C12", tier)
    sc = scratch("c12")
    rng = random.Random(seed())
    quick = tier == "quick"
    lox = build_lox(sc)
    sd = spec_dir(sc, "spec-gp")
    rm = tlc(sc, "GenPipeline", cfg="GenPipelineMC.cfg", cwd=sd, timeout=300, workers=2)
    tlc_must(rm, "GenPipeline")
    if rm.violation:
        raise Infra("GenPipeline.tla violates Outcome: " + rm.violation)
    cases = config_cases()
    ncfg = len(cases)
    seeds = [GOOD_LOX, GOOD2_LOX]
    for d in ("internal/parser/parser.lox", "examples/calc/calc.lox", "examples/jsonc/jsonc.lox", "examples/bolox/bolox.lox"):
        try:
            seeds.append(open(os.path.join(REPO, d)).read())
        except OSError:
            pass
    nmut = 250 if quick else 4000
    for i in range(nmut):
        base = rng.choice(seeds[:2] if rng.random() < 0.7 else seeds)
        if rng.random() < 0.7:
            txt = mutate_tokens(rng, base)
            data = txt.encode("utf-8", errors="surrogateescape") if isinstance(txt, str) else txt
        else:
            data = mutate_bytes(rng, base.encode())
        go = GOOD_GO if base is GOOD_LOX or base not in seeds[:2] else GOOD2_GO
        gofn = "parser.go" if go is GOOD_GO else "a.go"
        cases.append({"id": "mut:%d" % i, "files": {"g.lox": data, gofn: go}, "want": ""})
    for i, txt in enumerate(grammar_derived(rng, 150 if quick else 3000)):
        cases.append({"id": "gen:%d" % i, "files": {"g.lox": txt.encode("utf-8", errors="replace"), "parser.go": GOOD_GO}, "want": ""})
    # the well-formed base specification of C17 and every single-fault variant of it (multi-file, modes, macros, cycles ...)
    import props_wellformed as WF
    bare_go = "package wfpkg\n\ntype Token struct{ Ty int }\n\ntype P struct{ lox }\n"
    for vid, spec, fault in WF.variants():
        files, _ = WF.render(spec)
        files = dict(files)
        files["p.go"] = bare_go
        cases.append({"id": "wf:" + vid, "files": files, "want": ""})
    # every curated parser grammar shape of the other checks, through the command (bare Go package: the run has to end
    # with diagnostics about missing action methods, or with 'grammar has conflicts' -- never with a crash)
    import grams, pcase
    shapes = grams.curated("lang") + grams.curated("err") + grams.curated("bounds") + grams.curated_conflict() + \
        grams.chain_family()[::3] + grams.self_nesting() + grams.shift_family(3)[::5]
    for g in shapes:
        cases.append({"id": "shape:" + g["id"], "files": {"g.lox": pcase.render_lox(g), "p.go": bare_go}, "want": ""})
    # ... and every curated lexer rule-set shape (modes, non-greedy, rules matching the empty string -- modes whose DFA
    # states are all accepting --, nested cardinalities, keyword-heavy sets)
    import lcase, lgrams
    lshapes = list(lgrams.CURATED_GREEDY) + list(lgrams.CURATED_MODES) + lgrams.ng_cases()[::6] + lgrams.ng_cases()[-13:] + \
        lgrams.nullable_cases() + lgrams.card_nesting_specs()[::2] + lgrams.keyword_specs(random.Random(seed() + 31), 6) + \
        lgrams.all_mode_action_cases()[::9]
    for g in json.loads(json.dumps(lshapes)):
        cases.append({"id": "lshape:" + g["id"], "files": {"g.lox": lcase.render_lox(g), "p.go": bare_go}, "want": ""})
    log("C12: %d inputs (%d configurations)" % (len(cases), ncfg))
    done = pmap(lambda a: run_case(sc, lox, a[0], a[1]), list(enumerate(cases)))
    # a timeout under a loaded machine is not a hang: re-run those alone before believing it
    for i, c in enumerate(done):
        if c["obs"]["timeout"]:
            c2 = dict(cases[i]); c2.pop("obs", None)
            done[i] = run_case(sc, lox, 100000 + i, c2, tmo=240)
            size = sum(len(v) for v in (c2["files"] or {}).values())
            if done[i]["obs"]["timeout"] and size > 4000:
                # a large input that is merely slow is not decided by this check
                rep.note("input %s (%d bytes) did not finish within 240 s; large input, not judged" % (c2["id"], size))
                done[i]["obs"]["timeout"] = False
                done[i]["obs"]["exit"] = 1
                done[i]["obs"]["ndiag"] = 1
    json.dump([c["obs"] for c in done], open(os.path.join(sd, "pipeline_obs.json"), "w"))
    r = tlc(sc, "GenPipelineObs", cfg="GenPipelineObs.cfg", cwd=sd, timeout=900)
    tlc_must(r, "GenPipelineObs")
    if r.violation or r.distinct != 2 * len(done):
        raise Infra("GenPipelineObs incomplete: %s %d/%d" % (r.violation, r.distinct, 2 * len(done)))
    outcomes = {}
    for b in [l for l in r.lines if "gp" in l]:
        c = done[b["k"]]
        v = b["gp"]
        if v == "panic":
            sig = "c12.panic@" + c["obs"]["panic"]
        elif v == "wrong-stage" and c["id"].startswith("cfg:"):
            # a fault that makes an earlier or later stage fail is still "diagnostic + non-zero exit": not a violation of C12
            rep.note("configuration %s failed at another stage than expected (still a diagnosed failure): %s" % (c["id"], c["stderr"][-150:].replace("\n", " | ")))
            continue
        else:
            sig = "c12.%s:%s" % (v, c["id"] if c["id"].startswith("cfg:") else "input")
        files = {k: (v_.decode("utf-8", errors="replace") if isinstance(v_, bytes) else v_) for k, v_ in (c["files"] or {}).items()}
        rep.failure(sig, "%s: %s; exit %s, %d diagnostic line(s), files %s; stderr tail: %s" % (
            c["id"], v, c["obs"]["exit"], c["obs"]["ndiag"], {k: c["obs"][k] for k in GD.GENFILES}, c["stderr"][-300:].replace("\n", " | ")),
            {"id": c["id"], "files": files, "obs": c["obs"], "stderr": c["stderr"]})
    # ---- beyond the listed properties: the line-continuation wrapper of the .lox front-end (FrontLexer.tla) is bound to
    #      the code through a verif-tag hook; its recorded output must be the model's output for the recorded raw tokens
    fl_ok = fl_n = 0
    try:
        tool = build_tool(sc, "frontlex")
        texts = []
        for cse in done:
            if cse["files"]:
                for fn, data in cse["files"].items():
                    if fn.endswith(".lox"):
                        b = data if isinstance(data, bytes) else data.encode("utf-8", errors="surrogateescape")
                        if len(b) < 3000:
                            texts.append(list(b))
        texts = texts[:(400 if quick else 3000)]
        tf = os.path.join(sc, "frontlex_in.json")
        json.dump(texts, open(tf, "w"))
        fo = json.loads(run([tool, tf], timeout=300).stdout.decode())
        nm = fo["names"]
        fcases = [{"raw": o["raw"] or [], "wrapped": o["wrapped"] or []} for o in fo["outs"] if not o["panic"]]
        json.dump({"cases": fcases, "k": {"EOF": 0, "ERROR": 1, "NL": nm["NL"], "EXTEND": nm["EXTEND"], "OR": nm["OR"]}},
                  open(os.path.join(sd, "frontlex.json"), "w"))
        rf = tlc(sc, "FrontLexer", cfg="FrontLexer.cfg", cwd=sd, timeout=900)
        tlc_must(rf, "FrontLexer")
        flbad = [l for l in rf.lines if l.get("fl") == "bad"]
        fl_n = len(fcases)
        fl_ok = fl_n - len([b for b in flbad if not b["same"]])
        for b in flbad[:3]:
            if not b["same"]:
                rep.note("DRIFT: the front-end lexer wrapper deviates from FrontLexer.tla on input %d" % b["c"])
            else:
                rep.note("FrontLexer.tla (beyond the listed properties): on some text the wrapper hands the parser %s" % (
                    "an EXTEND token" if not b["noExtend"] else ("NL NL" if not b["noNLNL"] else "NL before OR")))
    except Infra as e:
        rep.note("front-end wrapper binding skipped: %s" % str(e)[:200])
    nsucc = len([c for c in done if c["obs"]["exit"] == 0])
    rep.coverage = {
        "evaluations": len(done), "distinct_nontrivial": len(set(json.dumps(c["files"], default=lambda b: b.decode("latin1"), sort_keys=True) for c in done)),
        "rule": "configuration faults: %d lox-side x %d go-side faults (+ directory outside a module, missing directory) with the stage that "
                "must fail; grammar inputs: token-level and byte-level mutations of valid .lox files with boundary lexemes, and texts derived "
                "from the shape of lox's own grammar; every observation (exit, diagnostics, files present and parseable, panic/hang) must be a "
                "terminal state of GenPipeline.tla; distinct = distinct file sets" % (len(LOX_FAULTS), len(GO_FAULTS)),
        "frontlexer_traces_validated": fl_ok, "frontlexer_traces": fl_n,
        "configurations": ncfg, "succeeded": nsucc, "failed_with_diagnostic": len(done) - nsucc - len(rep.fail),
        "states": rm.distinct + r.distinct, "transitions": rm.states + r.states,
        "samples": [{"id": done[0]["id"], "obs": done[0]["obs"]}, {"id": done[-1]["id"], "obs": done[-1]["obs"],
                                                                  "lox": (lambda x: x.decode("utf-8", errors="replace") if isinstance(x, bytes) else x)((done[-1]["files"] or {}).get("g.lox", b""))[:400]}],
    }
    rep.assumptions = ["the search over grammar texts is generation, not model checking; TLC contributes the outcome model and judges every observation",
                       "a run that does not finish within 60 s (and again within 240 s when re-run alone) on an input below 4 kB counts as a hang", "gofmt -e decides whether a generated file parses"]
    return rep.finish("exploration")
