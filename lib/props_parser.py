"""Checks of family P: C01 C03 C09 C16 (one compiled corpus serves them)."""
import json, os, random, time
from vlib import *
from pcase import *
from pfamily import *
import grams


def prepare(sc, cases, lox=None):
    lox = lox or build_lox(sc)
    mod = new_subject_module(sc)
    generate(sc, lox, mod, cases)
    acc = [c for c in cases if c["gen"]["ok"]]
    runner = build_runner(sc, mod, acc) if acc else None
    return lox, mod, acc, runner


def case_txt(c):
    return render_lox(c)


def replay_of(case, w=None, extra=None):
    d = {"id": case["id"], "lox": render_lox(case), "terms": case["terms"],
         "case_json": {k: v for k, v in case.items() if k != "gen"}}
    if w is not None:
        d["input_terminal_numbers"] = w
        d["input"] = [("ERROR" if t == 1 else case["terms"][t - 2]) for t in w]
    if extra:
        d.update(extra)
    return d


def mc_explore(sc, tcases, maxlen, liveness=False, timeout=1800, tag="mc"):
    """ParserMC over all inputs <= maxlen. Returns (bad lines, lasso or None, TlcResult)."""
    sd = spec_dir(sc, "spec-" + tag)
    json.dump(tcases, open(os.path.join(sd, "cases.json"), "w"))
    json.dump([], open(os.path.join(sd, "runs.json"), "w"))
    json.dump({"track": False, "maxlen": maxlen}, open(os.path.join(sd, "mcfg.json"), "w"))
    cfg = ["SPECIFICATION MCSpec", "CHECK_DEADLOCK FALSE"]
    if liveness:
        cfg.append("PROPERTY MCTerminates")
    open(os.path.join(sd, "ParserMC.cfg"), "w").write("\n".join(cfg) + "\n")
    r = tlc(sc, "ParserMC", cfg="ParserMC.cfg", cwd=sd, timeout=timeout)
    lasso = None
    if r.violation and "Temporal" in r.violation:
        # pull the case and the input of the lasso out of the counterexample
        cids = re.findall(r"/\\ cid = (\d+)", r.out)
        ws = re.findall(r"/\\ w = <<([^>]*)>>", r.out)
        if cids:
            lasso = {"c": int(cids[-1]) - 1,
                     "w": [int(x) for x in re.findall(r"\d+", ws[-1])] if ws else [],
                     "actions": re.findall(r'/\\ pc = "(\w+)"', r.out)}
        r.error = None
    else:
        tlc_must(r, "ParserMC")
        if r.violation:
            raise Infra("ParserMC: unexpected TLC violation: " + r.violation)
    return [l for l in r.lines if l.get("mc") == "bad"], lasso, r


def ebnf_lemma(rep, sc):
    """CFG!DocDesugar (the documented rewriting) agrees with the direct reading of the sugar (spec/EBNF.tla)"""
    sd = spec_dir(sc, "spec-ebnf")
    r = tlc(sc, "EBNF", cfg="EBNF.cfg", cwd=sd, timeout=2400)
    tlc_must(r, "EBNF")
    if "EBNF-LEMMA-FAILS" in r.out or r.violation or r.distinct != 192:
        raise Infra("the EBNF lemma does not hold -- the oracle's desugaring is wrong: " + r.out[-1500:])
    rep.coverage["ebnf_lemma"] = {"configurations": 96, "strings_each": 364, "states": r.distinct}
    return r


def lang_jobs(acc, cap, fullcap, with_error=False, budget=60, extra=None):
    jobs = []
    for c in acc:
        alpha = [i + 2 for i in range(len(c["terms"]))]
        if with_error(c) if callable(with_error) else with_error:
            alpha = [1] + alpha
        k = maxlen_for(len(alpha), cap)
        fk = min(k, maxlen_for(len(alpha), fullcap))
        jobs.append({"case": c["gen"]["pkg"], "alphabet": alpha, "maxlen": k, "fulllen": fk,
                     "extra": (extra or {}).get(c["id"], []), "budget": budget})
    return jobs


def random_sentences(case, rng, n, maxlen=40, mutate=True):
    """Random derivations from the *user-level* grammar (documented reading of
    the sugar), plus one-token mutations."""
    out = []

    def elem(t, i, depth):
        return [i + 2] if t == 1 else rule(i, depth + 1)

    def rule(r, depth):
        prods = case["rules"][r]["prods"]
        if depth > 6:
            # prefer short / non-recursive alternatives
            prods = sorted(prods, key=lambda p: len(p["terms"]))[:1]
        p = rng.choice(prods)
        s = []
        for T in p["terms"]:
            k = T["k"]
            if k == "err":
                raise ValueError
            if k == "sym":
                s += elem(T["t"], T["i"], depth)
            elif k == "opt":
                if rng.random() < 0.5:
                    s += elem(T["t"], T["i"], depth)
            elif k in ("star", "starF", "plus"):
                n_ = rng.randint(0 if k != "plus" else 1, 3 if depth < 4 else 1)
                for _ in range(n_):
                    s += elem(T["t"], T["i"], depth)
            elif k in ("list", "listopt"):
                n_ = rng.randint(0 if k == "listopt" else 1, 3 if depth < 4 else 1)
                for q in range(n_):
                    if q:
                        s += elem(T["st"], T["si"], depth)
                    s += elem(T["t"], T["i"], depth)
            if len(s) > maxlen * 2:
                raise ValueError
        return s
    tries = 0
    nt = len(case["terms"])
    while len(out) < n and tries < n * 20:
        tries += 1
        try:
            s = rule(case["start"], 0)
        except (ValueError, RecursionError):
            continue
        if len(s) > maxlen:
            continue
        out.append(s)
        if mutate and s:
            m = list(s)
            op = rng.choice(["del", "ins", "rep"])
            pos = rng.randrange(len(m))
            if op == "del":
                del m[pos]
            elif op == "ins":
                m.insert(pos, rng.randrange(nt) + 2)
            else:
                m[pos] = rng.randrange(nt) + 2
            out.append(m)
    return out


# =========================================================================== C01

def c01(tier):
    rep = Report("C01", tier)
    sc = scratch("c01")
    rng = random.Random(seed())
    quick = tier == "quick"
    cases = grams.curated("lang") + grams.curated("err")[:6]
    # order-sensitivity and slow fixed points of the construction: the same grammars declared backwards, alias chains
    cases += grams.chain_family() + grams.order_variants(grams.curated("lang"), rng, reverse=True, shuffles=0 if quick else 2)
    cases += grams.rename_variants(grams.curated("lang") + grams.self_nesting())
    cases += grams.self_nesting()
    nrand = 60 if quick else 400
    cases += grams.random_grammars(seed(), nrand, prefix="rnd", sugar=0.3)
    cases += grams.random_grammars(seed() + 7919, nrand // 3, prefix="rnde", sugar=0.2, err=0.08)
    if not quick:
        # a stride of the <= 2-rule family (the whole family goes through C04's in-process comparison)
        cases += grams.small_scope(max_rules=2, nterms=2, max_prods=2, max_rhs=2, stride=41, offset=seed() % 41)
    # C01 is about precedence-free grammars
    for c in cases:
        c["bounds"] = False
    cases = replay_filter(cases)
    lox, mod, acc, runner = prepare(sc, cases)
    rejected = [c for c in cases if not c["gen"]["ok"]]
    bad_reject = [c for c in rejected if not c["gen"]["conflicts"] or c["gen"]["panic"]]
    for c in bad_reject[:3]:
        rep.note("case %s: lox failed without reporting conflicts: %s" % (c["id"], c["gen"]["stderr"][-300:]))
    if not acc:
        raise Infra("no grammar was accepted")
    log("C01: %d cases, %d accepted, %d with conflicts" % (len(cases), len(acc), len(rejected)))
    cap = 700 if quick else 2500
    extra = {c["id"]: random_sentences(c, rng, 6 if quick else 30) for c in acc}
    jobs = lang_jobs(acc, cap, 60 if quick else 200, extra=extra)
    recs, hangs = run_jobs(sc, runner, jobs)
    idx = {c["gen"]["pkg"]: i for i, c in enumerate(acc)}
    tcases = [tlc_case(c) for c in acc]
    truns = [tlc_run(x, idx[x["case"]], ["c01"]) for x in recs]
    bad, ro = run_obs(sc, tcases, truns, tag="obs")
    for h in hangs:
        c = acc[idx[h[0]]]
        rep.failure("c01.hang:" + c["id"], "parse() made no progress for 10 s on %s" % h[1], replay_of(c, h[1]))
    for b in bad:
        run = truns[b["r"]]
        c = acc[b["c"]]
        kind = "rejects-sentence" if b["inl"] else "accepts-non-sentence"
        if run["panic"]:
            kind = "panic"
        if run["budget"]:
            kind = "no-termination"
        rep.failure("c01.%s:%s" % (kind, c["id"]),
                    "grammar %s, input %s: parse ok=%s, errors delivered=%s, in language=%s" % (
                        c["id"], run["w"], run["ok"], run["errs"], b["inl"]),
                    replay_of(c, run["w"], {"observed": {"ok": run["ok"], "errs": run["errs"]}, "in_language": b["inl"]}))
    # conformance of the model with the real runs (full-event subset)
    full = [r for r in truns if r["full"]]
    if not quick:
        rng.shuffle(full)
        full = full[:20000]
    tv, rt = run_trace(sc, tcases, full, tag="trace")
    drift = [r for i, r in enumerate(full) if tv.get(i, {}).get("tv") != "ok"]
    if drift:
        rep.note("DRIFT: %d of %d recorded runs are not behaviours of ParserRT (e.g. grammar %s input %s); "
                 "model-exhaustive part does not apply to them" % (
                     len(drift), len(full), acc[drift[0]["c"] - 1]["id"], drift[0]["w"]))
    # model exploration: ParserRT x tables x all inputs
    mck = 4 if quick else 6
    mcbad, _, rm = mc_explore(sc, tcases, mck, tag="mc", timeout=1500 if quick else 3000)
    for b in mcbad:
        c = acc[b["c"]]
        # only real behaviour counts: replay on the compiled parser
        rr, _ = run_jobs(sc, runner, [{"case": c["gen"]["pkg"], "alphabet": [], "maxlen": -1, "fulllen": 0,
                                       "extra": [b["w"]], "budget": 60}], shards=1)
        r0 = rr[0]
        clean = r0["ok"] and not r0["errs"] and not r0["panic"] and not r0["budget"]
        if clean != b["sentence"]:
            rep.failure("c01.%s:%s" % ("rejects-sentence" if b["sentence"] else "accepts-non-sentence", c["id"]),
                        "model counterexample reproduced: grammar %s input %s" % (c["id"], b["w"]),
                        replay_of(c, b["w"]))
        else:
            rep.note("model counterexample not reproduced on real parser: %s %s" % (c["id"], b["w"]))
    nontrivial = 0
    byc = {}
    for r in truns:
        byc.setdefault(r["c"], [0, 0])
        clean = r["ok"] and not r["errs"]
        byc[r["c"]][0 if clean else 1] += 1
    nontrivial = len([1 for a, b in byc.values() if a > 0 and b > 0])
    rep.coverage = {
        "states": ro.distinct + rt.distinct + rm.distinct,
        "transitions": ro.states + rt.states + rm.states,
        "traces_validated_against_impl": len([1 for v in tv.values() if v.get("tv") == "ok"]),
        "samples": [{"grammar": render_lox(acc[0]), "inputs": [r["w"] for r in truns[:5]]},
                    {"grammar": render_lox(acc[-1])}],
        "evaluations": len(truns), "distinct_nontrivial": nontrivial,
        "rule": "grammars: curated shapes + seeded random (sugar p=0.3) [+ small-scope family in thorough]; "
                "non-trivial = accepted grammar with at least one clean accept and one reject among its explored inputs",
        "grammars_generated": len(cases), "grammars_accepted": len(acc),
        "real_runs": len(truns), "trace_runs": len(full), "trace_drift": len(drift),
        "model_states": rm.distinct, "model_maxlen": mck,
        "strings_per_grammar_cap": cap,
    }
    rep.assumptions = ["TLC/SANY, CommunityModules Json", "Go toolchain", "text renderer and table scraper (lib/pcase.py)",
                       "inputs: every string up to the per-grammar length bound + random derivations/mutations up to 40 tokens"]
    if not quick:
        ebnf_lemma(rep, sc)
    return rep.finish("model_checking")


# =========================================================================== shared driver

def explore(rep, sc, cases, chk_of, cap, fullcap, with_error, rng, nsent, budget=60, trace_cap=20000):
    """generate/build/run/obs/trace. chk_of(case) -> list of predicate names.
    Returns dict with acc, truns, bad, tv, tlc results, runner, idx."""
    lox, mod, acc, runner = prepare(sc, cases)
    if not acc:
        raise Infra("no grammar was accepted")
    rejected = [c for c in cases if not c["gen"]["ok"]]
    for c in rejected:
        if c["gen"]["panic"]:
            rep.note("lox panicked on %s" % c["id"])
    log("%s: %d cases, %d accepted" % (rep.prop, len(cases), len(acc)))
    extra = {}
    for c in acc:
        try:
            extra[c["id"]] = random_sentences(c, rng, nsent)
        except Exception:
            extra[c["id"]] = []
    jobs = lang_jobs(acc, cap, fullcap, with_error=with_error, extra=extra, budget=budget)
    recs, hangs = run_jobs(sc, runner, jobs)
    idx = {c["gen"]["pkg"]: i for i, c in enumerate(acc)}
    tcases = [tlc_case(c) for c in acc]
    truns = [tlc_run(x, idx[x["case"]], chk_of(acc[idx[x["case"]]])) for x in recs]
    bad, ro = run_obs(sc, tcases, truns, tag="obs", chunk=60000)
    full = [r for r in truns if r["full"]]
    if len(full) > trace_cap:
        rng.shuffle(full)
        full = full[:trace_cap]
    tv, rt = run_trace(sc, tcases, full, tag="trace")
    drift = [(i, r) for i, r in enumerate(full) if tv.get(i, {}).get("tv") not in ("ok", "truncated")]
    if drift:
        rep.note("DRIFT: %d of %d recorded runs are not behaviours of ParserRT (e.g. grammar %s input %s: %s)" % (
            len(drift), len(full), acc[drift[0][1]["c"] - 1]["id"], drift[0][1]["w"],
            json.dumps(tv.get(drift[0][0], {}))[:600]))
    tvrun = {id(r): tv.get(i, {}) for i, r in enumerate(full)}
    return {"acc": acc, "truns": truns, "bad": bad, "tv": tv, "tvrun": tvrun, "full": full, "drift": drift, "ro": ro, "rt": rt,
            "runner": runner, "idx": idx, "tcases": tcases, "hangs": hangs, "cases": cases}


def std_coverage(rep, X, extra_rule, nontrivial):
    tv = X["tv"]
    rep.coverage.update({
        "states": X["ro"].distinct + X["rt"].distinct + rep.coverage.get("model_states", 0),
        "transitions": X["ro"].states + X["rt"].states + rep.coverage.get("model_transitions", 0),
        "traces_validated_against_impl": len([1 for v in tv.values() if v.get("tv") == "ok"]),
        "evaluations": len(X["truns"]), "distinct_nontrivial": nontrivial, "rule": extra_rule,
        "grammars_generated": len(X["cases"]), "grammars_accepted": len(X["acc"]),
        "real_runs": len(X["truns"]), "trace_runs": len(X["full"]), "trace_drift": len(X["drift"]),
        "samples": [{"grammar": render_lox(X["acc"][0]),
                     "inputs": [r["w"] for r in X["truns"][:6]]},
                    {"grammar": render_lox(X["acc"][-1]), "run": X["full"][-1] if X["full"] else None}],
    })
    rep.assumptions = ["TLC/SANY, CommunityModules Json", "Go toolchain",
                       "text renderer and table scraper (lib/pcase.py)",
                       "per-grammar input bound; random grammars and long inputs are samples"]


# =========================================================================== C03

def c03(tier):
    rep = Report("C03", tier)
    sc = scratch("c03")
    rng = random.Random(seed())
    quick = tier == "quick"
    cases = grams.curated("lang")
    cases += grams.random_grammars(seed() + 3, 60 if quick else 220, prefix="rnd3", sugar=0.45)
    # the same grammars with one Go result type for every rule: neighbouring stack entries then have identical
    # types, so a wrong Peek index or a lenient cast cannot hide behind a failed type assertion
    uni = []
    for c in cases:
        u = json.loads(json.dumps(c)); u["uniform"] = True; u["id"] = c["id"] + "~u"
        uni.append(u)
    cases += uni if not quick else uni[:len(grams.curated("lang")) + 20]
    # ... and with every list-valued parameter declared as a defined slice type (the term's value type is assignable to
    # it without being identical with it): the value must still arrive
    nml = []
    for c in cases[:len(grams.curated("lang")) + (20 if quick else 120)]:
        if any(T["k"] not in ("sym", "opt", "err") for r in c["rules"] for p in r["prods"] for T in p["terms"]):
            u = json.loads(json.dumps(c)); u["named_lists"] = True; u["id"] = c["id"] + "~n"
            nml.append(u)
    cases += nml
    # ... and with struct *values* as rule results whose Discard() is declared on the pointer: `x*!` must still ask every element
    vt = []
    for c in grams.curated("lang") + grams.random_grammars(seed() + 33, 30 if quick else 150, prefix="rnd33", sugar=0.6):
        if any(T["k"] == "starF" for r in c["rules"] for p in r["prods"] for T in p["terms"]):
            u = json.loads(json.dumps(c)); u["valtypes"] = True; u["id"] = c["id"] + "~v"
            vt.append(u)
    cases += vt
    for c in cases:
        c["bounds"] = False
    cases = replay_filter(cases)
    X = explore(rep, sc, cases, lambda c: ["c03"], 400 if quick else 1200, 400 if quick else 1200,
                False, rng, 10 if quick else 40)
    acc, truns = X["acc"], X["truns"]
    for b in X["bad"]:
        run, c = truns[b["r"]], acc[b["c"]]
        what = "amb" if b["bad"] == ["amb"] else "actions-differ"
        if what == "amb":
            rep.note("ambiguous sentence in an accepted grammar (reported under C04): %s %s" % (c["id"], run["w"]))
            continue
        rep.failure("c03.%s:%s" % (what, c["id"]),
                    "grammar %s, sentence %s: recorded action calls differ from the post-order of the derivation tree" % (c["id"], run["w"]),
                    replay_of(c, run["w"], {"recorded": [e for e in run["events"] if e["e"] == "act"], "expected": b.get("exp")}))
    sent = {}
    for r in truns:
        if r["ok"] and not r["errs"] and r["nact"] > 0:
            sent[r["c"]] = sent.get(r["c"], 0) + 1
    std_coverage(rep, X, "grammars: curated + seeded random rich in sugar; every string up to the per-grammar bound and "
                 "random derivations with full action logs; non-trivial = accepted grammar with >= 3 sentences whose "
                 "action sequence was compared with the oracle tree", len([1 for v in sent.values() if v >= 3]))
    rep.coverage["sentences_compared"] = sum(sent.values())
    return rep.finish("model_checking")


# =========================================================================== C16

def c16(tier):
    rep = Report("C16", tier)
    sc = scratch("c16")
    rng = random.Random(seed())
    quick = tier == "quick"
    base = grams.curated("bounds") + [c for c in grams.curated("lang")
                                      if not any(T["k"] == "starF" for r in c["rules"] for p in r["prods"] for T in p["terms"])]
    rnd = grams.random_grammars(seed() + 16, 50 if quick else 180, prefix="rnd16", sugar=0.4)
    rnd = [c for c in rnd if not any(T["k"] == "starF" for r in c["rules"] for p in r["prods"] for T in p["terms"])]
    cases = []
    for c in base + rnd:
        a = json.loads(json.dumps(c)); a["bounds"] = True; a["id"] = c["id"] + "+b"
        b = json.loads(json.dumps(c)); b["bounds"] = False; b["id"] = c["id"] + "-b"
        cases += [a, b]
    # grammars with @error productions, driven with non-sentences and lexer ERROR tokens too: the spans of the
    # reductions made during and after a recovery (judged locally, from the leaves of the value handed to _onBounds)
    nof = lambda cs: [c for c in cs if not any(T["k"] == "starF" for r in c["rules"] for p in r["prods"] for T in p["terms"])]
    errg = nof(grams.curated("err")) + nof(grams.random_grammars(seed() + 116, 30 if quick else 120, prefix="rnd16e", sugar=0.3, err=0.15))
    for c in errg:
        e = json.loads(json.dumps(c)); e["bounds"] = True; e["errin"] = True; e["id"] = c["id"] + "+be"
        cases.append(e)
    cases = replay_filter(cases)
    # the local predicate reads spans off the leaves of the values; @list drops its separators from the value, so a
    # grammar with @list is judged by the tree spans (sentences) only
    haslist = lambda c: any(T["k"] in ("list", "listopt") for r in c["rules"] for p in r["prods"] for T in p["terms"])
    X = explore(rep, sc, cases, lambda c: (["c16"] if haslist(c) else ["c16", "c16e"]) if c["bounds"] else ["c03", "c16n"],
                300 if quick else 900, 300 if quick else 900, lambda c: bool(c.get("errin")), rng, 10 if quick else 40, budget=80)
    acc, truns = X["acc"], X["truns"]
    for b in X["bad"]:
        run, c = truns[b["r"]], acc[b["c"]]
        if b["bad"] == ["amb"]:
            continue
        kind = "bounds-differ" if "c16" in b["bad"] else ("bounds-not-first-last-leaf" if "c16e" in b["bad"] else (
            "called-without-method" if "c16n" in b["bad"] else "presence-changes-parse"))
        rep.failure("c16.%s:%s" % (kind, c["id"]),
                    "grammar %s, sentence %s: recorded action/_onBounds calls differ from the tree spans" % (c["id"], run["w"]),
                    replay_of(c, run["w"], {"recorded": [e for e in run["events"] if e["e"] in ("act", "bounds")], "expected": b.get("exp")}))
    nb = {}
    for r in truns:
        if r["full"] and acc[r["c"] - 1]["bounds"]:
            n = len([1 for e in r["events"] if e["e"] == "bounds"])
            if n:
                nb[r["c"]] = nb.get(r["c"], 0) + 1
    std_coverage(rep, X, "each grammar generated twice (parser type with and without _onBounds); non-trivial = grammar "
                 "variant with _onBounds with >= 3 sentences on which _onBounds was called", len([1 for v in nb.values() if v >= 3]))
    rep.coverage["sentences_with_bounds_calls"] = sum(nb.values())
    return rep.finish("model_checking")


# =========================================================================== C09

def c09(tier):
    rep = Report("C09", tier)
    sc = scratch("c09")
    rng = random.Random(seed())
    quick = tier == "quick"
    cases = grams.curated("err") + grams.curated("lang")[:12]
    cases += grams.random_grammars(seed() + 9, 60 if quick else 300, prefix="rnd9", sugar=0.2, err=0.12)
    # (d) rebuilds the consumed symbols from the action arguments: no `*!` (it drops elements)
    cases = [c for c in cases if not any(T["k"] == "starF" for r in c["rules"] for p in r["prods"] for T in p["terms"])]
    for c in cases:
        c["bounds"] = False
    cases = replay_filter(cases)
    X = explore(rep, sc, cases, lambda c: ["c09"], 500 if quick else 1500, 500 if quick else 1500,
                True, rng, 6 if quick else 30, budget=80)
    acc, truns = X["acc"], X["truns"]
    for h in X["hangs"]:
        c = acc[X["idx"][h[0]]]
        rep.failure("c09.silent-spin:" + c["id"], "parse() spins without calling the lexer or an action on %s" % h[1],
                    replay_of(c, h[1]))
    # classification needs the trace verdict of every failing run: trace the ones the sample left out
    need = [truns[b["r"]] for b in X["bad"] if "c09c" in b["bad"] and truns[b["r"]]["full"] and id(truns[b["r"]]) not in X["tvrun"]]
    if need:
        tv2, rt2 = run_trace(sc, X["tcases"], need, tag="trace2")
        for i, r in enumerate(need):
            X["tvrun"][id(r)] = tv2.get(i, {})

    def livelock_sig(run):
        """budget exceeded: classify from the real trace tail"""
        ev = run["events"]
        if not ev:
            return "c09.no-termination"
        tail = ev[len(ev) // 2:]
        reads = [e for e in tail if e["e"] == "read"]
        errdeliv = [e for e in tail if e["e"] == "act" and any(a["k"] == "x" for a in e["args"])]
        if not reads and errdeliv:
            return "c09.recover-livelock-zero-progress"
        return "c09.no-termination"
    for b in X["bad"]:
        run, c = truns[b["r"]], acc[b["c"]]
        tvr = X["tvrun"].get(id(run), {})
        for k in b["bad"]:
            if k == "c09a":
                if run["budget"]:
                    sig = livelock_sig(run)
                else:
                    sig = "c09.panic:" + c["id"]
                desc = "grammar %s input %s: %s" % (c["id"], run["w"], "exceeded the callback budget (does not terminate)" if run["budget"] else "panic " + run["panic"])
            elif k == "c09b":
                sig = "c09.silent-accept:" + c["id"]
                desc = "grammar %s input %s accepted without delivering an Error although not a sentence" % (c["id"], run["w"])
            elif k == "c09c":
                if run["budget"]:
                    continue    # reported once, as non-termination
                if run["errs"][0] > b["fb"] and tvr.get("tv") == "ok" and b["fb"] in tvr.get("lost", []):
                    sig = "c09.first-error-discarded-by-later-recovery"
                elif run["errs"][0] > b["fb"] and tvr.get("tv") == "ok" and b["fb"] not in tvr.get("lost", []) and \
                        (b["fb"] in run["errs"] or (not run["ok"] and b["fb"] in tvr.get("onstack", []))):
                    # nothing was lost: the Error of the first offending token is delivered, but after a later one,
                    # because an enclosing production reduces after the productions nested to its right
                    sig = "c09.first-offending-error-delivered-after-nested-one"
                else:
                    sig = "c09.first-error-wrong-token:" + c["id"]
                desc = "grammar %s input %s: first Error delivered carries token %d, first offending token is %d" % (
                    c["id"], run["w"], run["errs"][0], b["fb"])
            else:
                continue
            rep.failure(sig, desc, replay_of(c, run["w"], {"observed": {"ok": run["ok"], "errs": run["errs"], "budget": run["budget"]},
                                                          "first_bad": b.get("fb")}))
    for run in X["full"]:
        tvr = X["tvrun"].get(id(run), {})
        if tvr.get("tv") == "ok" and tvr.get("consumed") is False:
            c = acc[run["c"] - 1]
            rep.failure("c09.consumed-not-a-sentence:" + c["id"],
                        "grammar %s input %s: parse returned true but the symbols it consumed are not a sentence" % (c["id"], run["w"]),
                        replay_of(c, run["w"]))
    # termination as a liveness property of the model loaded with the real tables
    mck = 3 if quick else 4
    tc_err = []
    for t in X["tcases"]:
        t2 = dict(t); t2["alphabet"] = [1] + t["alphabet"]
        tc_err.append(t2)
    remaining = list(range(len(tc_err)))
    lassos = 0
    states = 0
    for attempt in range(12):
        sub = [tc_err[i] for i in remaining]
        if not sub:
            break
        mcbad, lasso, rm = mc_explore(sc, sub, mck, liveness=True, tag="mc%d" % attempt, timeout=1500)
        states += rm.distinct
        if not lasso:
            break
        ci = remaining[lasso["c"]]
        c = acc[ci]
        # replay the lasso's input on the real parser: only real behaviour counts
        rr, hh = run_jobs(sc, X["runner"], [{"case": c["gen"]["pkg"], "alphabet": [], "maxlen": -1, "fulllen": 0,
                                             "extra": [lasso["w"]], "budget": 80}], shards=1)
        if hh or (rr and rr[0]["budget"]):
            lassos += 1
            inj = "rec_inner" in lasso["actions"] and "run" in lasso["actions"]
            rep.failure("c09.recover-livelock-zero-progress" if inj else "c09.no-termination",
                        "grammar %s input %s: ParserRT lasso (%s) reproduced on the real parser" % (
                c["id"], lasso["w"], "recovery injects ERROR without consuming input" if inj else "silent loop"),
                replay_of(c, lasso["w"], {"lasso_actions": lasso["actions"][-12:]}))
        else:
            rep.note("model lasso not reproduced on the real parser: %s %s" % (c["id"], lasso["w"]))
        remaining.remove(ci)
    rep.coverage["model_states"] = states
    rep.coverage["model_maxlen"] = mck
    rep.coverage["model_lassos_reproduced"] = lassos
    nerr = {}
    for r in truns:
        if r["errs"]:
            nerr[r["c"]] = nerr.get(r["c"], 0) + 1
    std_coverage(rep, X, "grammars with @error in every position (curated + seeded random, p(err term)=0.12) and without; "
                 "inputs: every string over terminals + lexer ERROR up to the bound, random sentences and mutations; "
                 "non-trivial = grammar on which at least 3 inputs delivered an Error to an action",
                 len([1 for v in nerr.values() if v >= 3]))
    rep.coverage["runs_with_error_delivered"] = sum(nerr.values())
    return rep.finish("model_checking")
