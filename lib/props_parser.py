"""Checks of family P: C01 C03 C09 C16 (one compiled corpus serves them)."""
import json, os, random, time
from vlib import *
from pcase import *
from pfamily import *
import grams


def prepare(sc, cases, lox=None):
    lox = lox or build_lox(sc)
    mod = new_subject_module(sc)
    generate(sc, lox, mod, cases)
    acc = [c for c in cases if c["gen"]["ok"]]
    runner = build_runner(sc, mod, acc) if acc else None
    return lox, mod, acc, runner


def case_txt(c):
    return render_lox(c)


def replay_of(case, w=None, extra=None):
    d = {"id": case["id"], "lox": render_lox(case), "terms": case["terms"]}
    if w is not None:
        d["input_terminal_numbers"] = w
        d["input"] = [("ERROR" if t == 1 else case["terms"][t - 2]) for t in w]
    if extra:
        d.update(extra)
    return d


def mc_explore(sc, tcases, maxlen, liveness=False, timeout=1800, tag="mc"):
    """ParserMC over all inputs <= maxlen. Returns (bad lines, lasso or None, TlcResult)."""
    sd = spec_dir(sc, "spec-" + tag)
    json.dump(tcases, open(os.path.join(sd, "cases.json"), "w"))
    json.dump([], open(os.path.join(sd, "runs.json"), "w"))
    json.dump({"track": False, "maxlen": maxlen}, open(os.path.join(sd, "mcfg.json"), "w"))
    cfg = ["SPECIFICATION MCSpec", "CHECK_DEADLOCK FALSE"]
    if liveness:
        cfg.append("PROPERTY MCTerminates")
    open(os.path.join(sd, "ParserMC.cfg"), "w").write("\n".join(cfg) + "\n")
    r = tlc(sc, "ParserMC", cfg="ParserMC.cfg", cwd=sd, timeout=timeout)
    lasso = None
    if r.violation and "Temporal" in r.violation:
        # pull the case and the input of the lasso out of the counterexample
        cids = re.findall(r"/\\ cid = (\d+)", r.out)
        ws = re.findall(r"/\\ w = <<([^>]*)>>", r.out)
        if cids:
            lasso = {"c": int(cids[-1]) - 1,
                     "w": [int(x) for x in re.findall(r"\d+", ws[-1])] if ws else [],
                     "actions": re.findall(r"<(\w+) line \d+", r.out)}
        r.error = None
    else:
        tlc_must(r, "ParserMC")
        if r.violation:
            raise Infra("ParserMC: unexpected TLC violation: " + r.violation)
    return [l for l in r.lines if l.get("mc") == "bad"], lasso, r


def lang_jobs(acc, cap, fullcap, with_error=False, budget=60, extra=None):
    jobs = []
    for c in acc:
        alpha = [i + 2 for i in range(len(c["terms"]))]
        if with_error:
            alpha = [1] + alpha
        k = maxlen_for(len(alpha), cap)
        fk = min(k, maxlen_for(len(alpha), fullcap))
        jobs.append({"case": c["gen"]["pkg"], "alphabet": alpha, "maxlen": k, "fulllen": fk,
                     "extra": (extra or {}).get(c["id"], []), "budget": budget})
    return jobs


def random_sentences(case, rng, n, maxlen=40, mutate=True):
    """Random derivations from the *user-level* grammar (documented reading of
    the sugar), plus one-token mutations."""
    out = []

    def elem(t, i, depth):
        return [i + 2] if t == 1 else rule(i, depth + 1)

    def rule(r, depth):
        prods = case["rules"][r]["prods"]
        if depth > 6:
            # prefer short / non-recursive alternatives
            prods = sorted(prods, key=lambda p: len(p["terms"]))[:1]
        p = rng.choice(prods)
        s = []
        for T in p["terms"]:
            k = T["k"]
            if k == "err":
                raise ValueError
            if k == "sym":
                s += elem(T["t"], T["i"], depth)
            elif k == "opt":
                if rng.random() < 0.5:
                    s += elem(T["t"], T["i"], depth)
            elif k in ("star", "starF", "plus"):
                n_ = rng.randint(0 if k != "plus" else 1, 3 if depth < 4 else 1)
                for _ in range(n_):
                    s += elem(T["t"], T["i"], depth)
            elif k in ("list", "listopt"):
                n_ = rng.randint(0 if k == "listopt" else 1, 3 if depth < 4 else 1)
                for q in range(n_):
                    if q:
                        s += elem(T["st"], T["si"], depth)
                    s += elem(T["t"], T["i"], depth)
            if len(s) > maxlen * 2:
                raise ValueError
        return s
    tries = 0
    nt = len(case["terms"])
    while len(out) < n and tries < n * 20:
        tries += 1
        try:
            s = rule(case["start"], 0)
        except (ValueError, RecursionError):
            continue
        if len(s) > maxlen:
            continue
        out.append(s)
        if mutate and s:
            m = list(s)
            op = rng.choice(["del", "ins", "rep"])
            pos = rng.randrange(len(m))
            if op == "del":
                del m[pos]
            elif op == "ins":
                m.insert(pos, rng.randrange(nt) + 2)
            else:
                m[pos] = rng.randrange(nt) + 2
            out.append(m)
    return out


# =========================================================================== C01

def c01(tier):
    rep = Report("C01", tier)
    sc = scratch("c01")
    rng = random.Random(seed())
    quick = tier == "quick"
    cases = grams.curated("lang") + grams.curated("err")[:6]
    nrand = 60 if quick else 700
    cases += grams.random_grammars(seed(), nrand, prefix="rnd", sugar=0.3)
    cases += grams.random_grammars(seed() + 7919, nrand // 3, prefix="rnde", sugar=0.2, err=0.08)
    if not quick:
        cases += grams.small_scope(max_rules=2, nterms=2, max_prods=2, max_rhs=2)
    # C01 is about precedence-free grammars
    for c in cases:
        c["bounds"] = False
    lox, mod, acc, runner = prepare(sc, cases)
    rejected = [c for c in cases if not c["gen"]["ok"]]
    bad_reject = [c for c in rejected if not c["gen"]["conflicts"] or c["gen"]["panic"]]
    for c in bad_reject[:3]:
        rep.note("case %s: lox failed without reporting conflicts: %s" % (c["id"], c["gen"]["stderr"][-300:]))
    if not acc:
        raise Infra("no grammar was accepted")
    log("C01: %d cases, %d accepted, %d with conflicts" % (len(cases), len(acc), len(rejected)))
    cap = 700 if quick else 6000
    extra = {c["id"]: random_sentences(c, rng, 6 if quick else 30) for c in acc}
    jobs = lang_jobs(acc, cap, 60 if quick else 200, extra=extra)
    recs, hangs = run_jobs(sc, runner, jobs)
    idx = {c["gen"]["pkg"]: i for i, c in enumerate(acc)}
    tcases = [tlc_case(c) for c in acc]
    truns = [tlc_run(x, idx[x["case"]], ["c01"]) for x in recs]
    bad, ro = run_obs(sc, tcases, truns, tag="obs")
    for h in hangs:
        c = acc[idx[h[0]]]
        rep.failure("c01.hang:" + c["id"], "parse() made no progress for 10 s on %s" % h[1], replay_of(c, h[1]))
    for b in bad:
        run = truns[b["r"]]
        c = acc[b["c"]]
        kind = "rejects-sentence" if b["inl"] else "accepts-non-sentence"
        if run["panic"]:
            kind = "panic"
        if run["budget"]:
            kind = "no-termination"
        rep.failure("c01.%s:%s" % (kind, c["id"]),
                    "grammar %s, input %s: parse ok=%s, errors delivered=%s, in language=%s" % (
                        c["id"], run["w"], run["ok"], run["errs"], b["inl"]),
                    replay_of(c, run["w"], {"observed": {"ok": run["ok"], "errs": run["errs"]}, "in_language": b["inl"]}))
    # conformance of the model with the real runs (full-event subset)
    full = [r for r in truns if r["full"]]
    if not quick:
        rng.shuffle(full)
        full = full[:20000]
    tv, rt = run_trace(sc, tcases, full, tag="trace")
    drift = [r for i, r in enumerate(full) if tv.get(i, {}).get("tv") != "ok"]
    if drift:
        rep.note("DRIFT: %d of %d recorded runs are not behaviours of ParserRT (e.g. grammar %s input %s); "
                 "model-exhaustive part does not apply to them" % (
                     len(drift), len(full), acc[drift[0]["c"] - 1]["id"], drift[0]["w"]))
    # model exploration: ParserRT x tables x all inputs
    mck = 4 if quick else 6
    mcbad, _, rm = mc_explore(sc, tcases, mck, tag="mc", timeout=1500 if quick else 3000)
    for b in mcbad:
        c = acc[b["c"]]
        # only real behaviour counts: replay on the compiled parser
        rr, _ = run_jobs(sc, runner, [{"case": c["gen"]["pkg"], "alphabet": [], "maxlen": -1, "fulllen": 0,
                                       "extra": [b["w"]], "budget": 60}], shards=1)
        r0 = rr[0]
        clean = r0["ok"] and not r0["errs"] and not r0["panic"] and not r0["budget"]
        if clean != b["sentence"]:
            rep.failure("c01.%s:%s" % ("rejects-sentence" if b["sentence"] else "accepts-non-sentence", c["id"]),
                        "model counterexample reproduced: grammar %s input %s" % (c["id"], b["w"]),
                        replay_of(c, b["w"]))
        else:
            rep.note("model counterexample not reproduced on real parser: %s %s" % (c["id"], b["w"]))
    nontrivial = 0
    byc = {}
    for r in truns:
        byc.setdefault(r["c"], [0, 0])
        clean = r["ok"] and not r["errs"]
        byc[r["c"]][0 if clean else 1] += 1
    nontrivial = len([1 for a, b in byc.values() if a > 0 and b > 0])
    rep.coverage = {
        "states": ro.distinct + rt.distinct + rm.distinct,
        "transitions": ro.states + rt.states + rm.states,
        "traces_validated_against_impl": len([1 for v in tv.values() if v.get("tv") == "ok"]),
        "samples": [{"grammar": render_lox(acc[0]), "inputs": [r["w"] for r in truns[:5]]},
                    {"grammar": render_lox(acc[-1])}],
        "evaluations": len(truns), "distinct_nontrivial": nontrivial,
        "rule": "grammars: curated shapes + seeded random (sugar p=0.3) [+ small-scope family in thorough]; "
                "non-trivial = accepted grammar with at least one clean accept and one reject among its explored inputs",
        "grammars_generated": len(cases), "grammars_accepted": len(acc),
        "real_runs": len(truns), "trace_runs": len(full), "trace_drift": len(drift),
        "model_states": rm.distinct, "model_maxlen": mck,
        "strings_per_grammar_cap": cap,
    }
    rep.assumptions = ["TLC/SANY, CommunityModules Json", "Go toolchain", "text renderer and table scraper (lib/pcase.py)",
                       "inputs: every string up to the per-grammar length bound + random derivations/mutations up to 40 tokens"]
    return rep.finish("model_checking")
