"""C17: ill-formed specifications are rejected at the right place; valid ones pass."""
import copy, json, os, re, random
from vlib import *
import props_lalr


def cps(s):
    return [ord(c) for c in s]


def D(kind, text, name="", **kw):
    d = {"kind": kind, "text": text, "name": name, "names": [], "mode": "", "macrorefs": [], "emits": [], "pushes": [], "lits": [],
         "ranges": [], "acts": [], "start": False, "prefs": [], "aliases": [], "simple": "", "body": []}
    d.update(kw)
    return d


def base_spec():
    a_lex = [
        D("macro", "@macro DIGIT = [0-9]", "DIGIT", ranges=[[48, 57]]),
        D("token", "NUM = DIGIT+", "NUM", macrorefs=["DIGIT"]),
        D("token", "ADD = '+'", "ADD", lits=["+"], simple="+"),
        D("token", "ID = [a-z] [a-z0-9_]*", "ID", ranges=[[97, 122], [97, 122], [48, 57], [95, 95]]),
        D("token", "QUOTE = '\"' @push_mode(Str)", "QUOTE", lits=['"'], simple='"', pushes=["Str"], acts=["push"]),
        D("mode", "@mode Str {", "Str", body=[
            D("token", "STR_END = '\"' @pop_mode", "STR_END", lits=['"'], acts=["pop"], mode="Str", simple='"'),
            D("frag", "@frag ~[\"\\n]", ranges=[[34, 34], [10, 10]], mode="Str"),
        ]),
        D("frag", "@frag [ \\n]+ @discard", ranges=[[32, 32], [10, 10]], acts=["discard"]),
    ]
    a_par = [D("rule", "@start s = @list(item, ',')", "s", start=True, prefs=["item"], aliases=[","])]
    b_lex = [
        D("token", "COMMA = ','", "COMMA", lits=[","], simple=","),
        D("token", "HASH = '#'", "HASH", lits=["#"], simple="#"),
        D("frag", "@frag '%' @emit(HASH)", lits=["%"], emits=["HASH"], acts=["emit"]),
    ]
    b_par = [D("rule", "item = NUM | ID | '+' item | HASH", "item", prefs=["NUM", "ID", "item", "HASH"], aliases=["+"])]
    return [{"name": "a.lox", "lexer": a_lex, "parser": a_par}, {"name": "b.lox", "lexer": b_lex, "parser": b_par}]


# NOTE: QUOTE and STR_END both are the simple literal '"' -> the alias '"' is ambiguous, but nobody uses it (well formed).

def render(spec):
    """returns ({filename: text}, flat list of decl records with file/l1/l2)"""
    files, flat = {}, []
    for f in spec:
        lines = []

        def emit(d, indent=""):
            l1 = len(lines) + 1
            for ln in d["text"].split("\n"):
                lines.append(indent + ln)
            if d["kind"] == "mode":
                for b in d["body"]:
                    emit(b, "  ")
                lines.append(indent + "}")
            rec = {k: v for k, v in d.items() if k not in ("text", "body")}
            rec.update({"file": f["name"], "l1": l1, "l2": len(lines) if d["kind"] != "mode" else l1})
            rec["_ref"] = d
            flat.append(rec)
        if f["lexer"]:
            lines.append("@lexer")
            for d in f["lexer"]:
                emit(d)
        if f["parser"]:
            lines.append("@parser")
            for d in f["parser"]:
                emit(d)
        files[f["name"]] = "\n".join(lines) + "\n"
    return files, flat


def tlc_decl(r):
    return {"kind": r["kind"], "file": r["file"], "l1": r["l1"], "l2": r["l2"], "name": cps(r["name"]),
            "names": [cps(n) for n in r["names"]], "mode": r["mode"],
            "macrorefs": [cps(x) for x in r["macrorefs"]], "emits": [cps(x) for x in r["emits"]],
            "pushes": [cps(x) for x in r["pushes"]], "lits": [cps(x) for x in r["lits"]], "ranges": r["ranges"],
            "acts": r["acts"], "start": r["start"], "prefs": [cps(x) for x in r["prefs"]],
            "aliases": [cps(x) for x in r["aliases"]], "simple": cps(r["simple"])}


def variants():
    """(id, spec, faulty-decl-object or None, expected_wellformed_hint)"""
    out = []

    def add(vid, mut, where=("a", "lexer")):
        spec = base_spec()
        fault = mut(spec)
        out.append((vid, spec, fault))

    def lexer_of(spec, f):
        return spec[0 if f == "a" else 1]["lexer"]

    def parser_of(spec, f):
        return spec[0 if f == "a" else 1]["parser"]

    def mode_body(spec):
        return [d for d in spec[0]["lexer"] if d["kind"] == "mode"][0]["body"]

    def place(spec, where, d):
        """insert declaration d in the default section of a.lox, inside the mode, or in b.lox"""
        if where == "default":
            lexer_of(spec, "a").insert(2, d)
        elif where == "mode":
            d["mode"] = "Str"
            mode_body(spec).append(d)
        else:
            lexer_of(spec, "b").append(d)
        return d
    out.append(("base", base_spec(), None))
    # ---- well-formed variations (must be accepted)
    add("ok-unused-macro", lambda s: place(s, "default", D("macro", "@macro UNUSED = 'u' | DIGIT", "UNUSED", lits=["u"], macrorefs=["DIGIT"])) and None)
    add("ok-mode-never-pushed", lambda s: lexer_of(s, "b").append(D("mode", "@mode Idle {", "Idle", body=[D("token", "IDLE_T = 'q'", "IDLE_T", lits=["q"], simple="q", mode="Idle")])))
    add("ok-push-default", lambda s: place(s, "mode", D("token", "REENTER = '{' @push_mode()", "REENTER", lits=["{"], simple="{", pushes=[""], acts=["push"])) and None)
    add("ok-frag-emit-and-push", lambda s: place(s, "default", D("frag", "@frag '&' @push_mode(Str) @emit(HASH)", lits=["&"], pushes=["Str"], emits=["HASH"], acts=["push", "emit"])) and None)
    add("ok-external-declared", lambda s: lexer_of(s, "b").append(D("external", "@external EXT_A EXT_B", names=["EXT_A", "EXT_B"])))

    def ext_ref(s):
        lexer_of(s, "b").append(D("external", "@external EXT_A", names=["EXT_A"]))
        r = parser_of(s, "b")[0]
        r["text"] += " | EXT_A"
        r["prefs"].append("EXT_A")
    add("ok-external-referenced", ext_ref)
    add("ok-token-digits-underscore", lambda s: place(s, "default", D("token", "T_1_A9 = 'w'", "T_1_A9", lits=["w"], simple="w")) and None)
    add("ok-rule-underscore", lambda s: parser_of(s, "b").append(D("rule", "x_y1 = NUM", "x_y1", prefs=["NUM"])))
    add("ok-range-single", lambda s: place(s, "default", D("token", "SAME = [k-k]", "SAME", ranges=[[107, 107]])) and None)
    # ---- duplicate names
    for where in ("default", "mode", "b"):
        add("dup-token-token@" + where, lambda s, w=where: place(s, w, D("token", "NUM = 'n'", "NUM", lits=["n"], simple="n")))
        add("dup-macro-token@" + where, lambda s, w=where: place(s, w, D("macro", "@macro ADD = 'm'", "ADD", lits=["m"])))
        add("dup-token-macro@" + where, lambda s, w=where: place(s, w, D("token", "DIGIT = 'd'", "DIGIT", lits=["d"], simple="d")))
        add("dup-external-token@" + where, lambda s, w=where: place(s, w, D("external", "@external ID", names=["ID"])))
    add("dup-mode-mode", lambda s: (lexer_of(s, "b").append(D("mode", "@mode Str {", "Str", body=[D("token", "S2 = 'z'", "S2", lits=["z"], simple="z", mode="Str")])), lexer_of(s, "b")[-1])[1])
    add("dup-mode-token", lambda s: (lexer_of(s, "b").append(D("mode", "@mode NUM {", "NUM", body=[D("token", "S2 = 'z'", "S2", lits=["z"], simple="z", mode="NUM")])), lexer_of(s, "b")[-1])[1])
    add("dup-rule-rule", lambda s: (parser_of(s, "b").append(D("rule", "item = ID", "item", prefs=["ID"])), parser_of(s, "b")[-1])[1])
    add("dup-rule-rule-a", lambda s: (parser_of(s, "a").append(D("rule", "item = ID", "item", prefs=["ID"])), parser_of(s, "a")[-1])[1])
    add("dup-rule-mode", lambda s: (parser_of(s, "b").append(D("rule", "Str = ID", "Str", prefs=["ID"])), parser_of(s, "b")[-1])[1])
    add("dup-external-external", lambda s: (lexer_of(s, "b").append(D("external", "@external EXT_A EXT_A", names=["EXT_A", "EXT_A"])), lexer_of(s, "b")[-1])[1])
    # ---- naming rules
    for nm in ("Num2", "n2", "A_", "A__B", "EOF", "ERROR", "_A"):
        if nm == "_A":
            continue   # not lexable as a name at all: a syntax error, not a naming fault
        for where in ("default", "mode", "b"):
            add("name-token-%s@%s" % (nm, where), lambda s, w=where, n=nm: place(s, w, D("token", "%s = 'v'" % n, n, lits=["v"], simple="v")))
        add("name-macro-%s" % nm, lambda s, n=nm: place(s, "default", D("macro", "@macro %s = 'v'" % n, n, lits=["v"])))
        add("name-external-%s" % nm, lambda s, n=nm: place(s, "b", D("external", "@external %s" % n, names=[n])))
    for nm in ("a__b", "x__"):
        add("name-rule-%s" % nm, lambda s, n=nm: (parser_of(s, "b").append(D("rule", "%s = NUM" % n, n, prefs=["NUM"])), parser_of(s, "b")[-1])[1])
    # ---- undefined / ambiguous references

    def mutrule(s, f, extra_text, **kw):
        r = parser_of(s, f)[0]
        r["text"] += extra_text
        for k, v in kw.items():
            r[k] = r[k] + v
        return r
    add("undef-parser-name@b", lambda s: mutrule(s, "b", " | NOPE", prefs=["NOPE"]))
    add("undef-parser-rule@a", lambda s: mutrule(s, "a", " nope", prefs=["nope"]))
    add("undef-parser-name-in-list", lambda s: mutrule(s, "a", " @list(NOPE, ',')", prefs=["NOPE"], aliases=[","]))
    add("undef-alias@b", lambda s: mutrule(s, "b", " | 'zz'", aliases=["zz"]))
    add("undef-alias-in-list", lambda s: mutrule(s, "a", " @list(item, ';')", prefs=["item"], aliases=[";"]))
    add("ambiguous-alias", lambda s: mutrule(s, "b", " | '\"'", aliases=['"']))
    def amb_n(s, extra):
        for k in range(extra):
            lexer_of(s, "b").append(D("mode", "@mode Other%d {" % k, "Other%d" % k, body=[
                D("token", "OQ%d = '\"'" % k, "OQ%d" % k, lits=['"'], simple='"', mode="Other%d" % k)]))
        return mutrule(s, "b", " | '\"'", aliases=['"'])
    add("ambiguous-alias-3", lambda s: amb_n(s, 1))
    add("ambiguous-alias-4", lambda s: amb_n(s, 2))
    add("ambiguous-alias-5", lambda s: amb_n(s, 3))
    add("ambiguous-alias-3-in-list", lambda s: (amb_n(s, 1), mutrule(s, "a", " @list(item, '\"')", prefs=["item"], aliases=['"']))[1])
    add("parser-refs-macro", lambda s: mutrule(s, "b", " | DIGIT", prefs=["DIGIT"]))
    add("parser-refs-mode", lambda s: mutrule(s, "b", " | Str", prefs=["Str"]))
    for where in ("default", "mode", "b"):
        add("undef-macro@" + where, lambda s, w=where: place(s, w, D("token", "UM = NOMACRO+", "UM", macrorefs=["NOMACRO"])))
        add("ref-token-as-macro@" + where, lambda s, w=where: place(s, w, D("token", "UT = NUM 'x'", "UT", macrorefs=["NUM"], lits=["x"])))
        add("undef-mode@" + where, lambda s, w=where: place(s, w, D("token", "PM = 'y' @push_mode(Nowhere)", "PM", lits=["y"], simple="y", pushes=["Nowhere"], acts=["push"])))
        add("undef-emit@" + where, lambda s, w=where: place(s, w, D("frag", "@frag 'y' @emit(NOTOK)", lits=["y"], emits=["NOTOK"], acts=["emit"])))
        add("emit-macro@" + where, lambda s, w=where: place(s, w, D("frag", "@frag 'y' @emit(DIGIT)", lits=["y"], emits=["DIGIT"], acts=["emit"])))
    add("undef-macro-in-macro", lambda s: place(s, "default", D("macro", "@macro M2 = NOMACRO 'x'", "M2", macrorefs=["NOMACRO"], lits=["x"])))
    # ---- macro cycles
    add("cycle-direct-unused", lambda s: place(s, "default", D("macro", "@macro SELF = 'a' SELF", "SELF", lits=["a"], macrorefs=["SELF"])))

    def cyc_used(s):
        m = place(s, "default", D("macro", "@macro SELF = 'a' SELF", "SELF", lits=["a"], macrorefs=["SELF"]))
        place(s, "default", D("token", "USES = SELF", "USES", macrorefs=["SELF"]))
        return m
    add("cycle-direct-used", cyc_used)

    def cyc_mutual(s, used):
        a = place(s, "default", D("macro", "@macro MA = 'a' MB", "MA", lits=["a"], macrorefs=["MB"]))
        place(s, "b", D("macro", "@macro MB = 'b' MA", "MB", lits=["b"], macrorefs=["MA"]))
        if used:
            place(s, "mode", D("token", "USES = MA", "USES", macrorefs=["MA"]))
        return a
    add("cycle-mutual-unused", lambda s: cyc_mutual(s, False))
    add("cycle-mutual-used", lambda s: cyc_mutual(s, True))
    # a macro that is *not* part of the cycle but uses it, declared before every cycle member (the diagnostic belongs to the cycle)
    def cyc_outer(s, where_cycle):
        lexer_of(s, "a").insert(0, D("macro", "@macro OUTER = 'q' MA", "OUTER", lits=["q"], macrorefs=["MA"]))
        a = place(s, where_cycle, D("macro", "@macro MA = 'a' MB", "MA", lits=["a"], macrorefs=["MB"]))
        place(s, where_cycle, D("macro", "@macro MB = 'b' MA", "MB", lits=["b"], macrorefs=["MA"]))
        return a
    for w in ("default", "mode", "b"):
        add("cycle-behind-outer-macro@" + w, lambda s, w=w: cyc_outer(s, w))

    def cyc_outer_self(s, where_cycle):
        lexer_of(s, "a").insert(0, D("macro", "@macro OUTER = 'q' SELF", "OUTER", lits=["q"], macrorefs=["SELF"]))
        lexer_of(s, "a").insert(1, D("token", "USESOUTER = OUTER", "USESOUTER", macrorefs=["OUTER"]))
        return place(s, where_cycle, D("macro", "@macro SELF = 'a' SELF", "SELF", lits=["a"], macrorefs=["SELF"]))
    for w in ("default", "mode", "b"):
        add("cycle-self-behind-outer@" + w, lambda s, w=w: cyc_outer_self(s, w))
    # ---- @start

    def nostart(s):
        r = parser_of(s, "a")[0]
        r["text"] = r["text"].replace("@start ", "")
        r["start"] = False
        return None
    add("no-start", nostart)

    def twostart(s):
        r = parser_of(s, "b")[0]
        r["text"] = "@start " + r["text"]
        r["start"] = True
        return r
    add("two-starts", twostart)
    # ---- actions
    for where in ("default", "mode", "b"):
        add("discard-on-token@" + where, lambda s, w=where: place(s, w, D("token", "DT = 'y' @discard", "DT", lits=["y"], simple="y", acts=["discard"])))
        add("emit-on-token@" + where, lambda s, w=where: place(s, w, D("token", "ET = 'y' @emit(HASH)", "ET", lits=["y"], simple="y", emits=["HASH"], acts=["emit"])))
        add("two-discards@" + where, lambda s, w=where: place(s, w, D("frag", "@frag 'y' @discard @discard", lits=["y"], acts=["discard", "discard"])))
        add("two-emits@" + where, lambda s, w=where: place(s, w, D("frag", "@frag 'y' @emit(HASH) @emit(ADD)", lits=["y"], emits=["HASH", "ADD"], acts=["emit", "emit"])))
    # ---- empty literal, reversed range
    for where in ("default", "mode", "b"):
        add("empty-literal-token@" + where, lambda s, w=where: place(s, w, D("token", "EL = 'a' ''", "EL", lits=["a", ""])))
        add("empty-literal-frag@" + where, lambda s, w=where: place(s, w, D("frag", "@frag '' 'a' @discard", lits=["", "a"], acts=["discard"])))
        add("reversed-range-token@" + where, lambda s, w=where: place(s, w, D("token", "RR = [z-a]", "RR", ranges=[[122, 97]])))
        add("reversed-range-neg@" + where, lambda s, w=where: place(s, w, D("token", "RN = ~[9-0] 'x'", "RN", ranges=[[57, 48]], lits=["x"])))
    # a reversed range in company: next to / inside / touching other items of the same class (items are flattened and merged
    # before the automaton is built; the check has to look at the items as written), in negations and on either side of a
    # difference, spelled with escapes; and the well-formed neighbours of these shapes (lower = upper, nested, touching)
    company = [("rr-inside", "[a-zm-b]", [[97, 122], [109, 98]]), ("rr-digits", "[0-95-1]", [[48, 57], [53, 49]]),
               ("rr-after-single", "[ab-a]", [[97, 97], [98, 97]]), ("rr-touching", "[a-cd-b]", [[97, 99], [100, 98]]),
               ("rr-first-of-two", "[z-ab-c]", [[122, 97], [98, 99]]), ("rr-same-lower", "[m-am-z]", [[109, 97], [109, 122]]),
               ("rr-neg-company", "~[a-zz-y]", [[97, 122], [122, 121]]), ("rr-escaped", "[\\u0062-\\u0061]", [[98, 97]]),
               ("rr-escaped-company", "[a-f\\u0065-\\u0062]", [[97, 102], [101, 98]]), ("rr-by-one", "[b-a]", [[98, 97]]),
               ("rr-diff-right", "[a-z] - [a-zz-y]", [[97, 122], [97, 122], [122, 121]]), ("rr-diff-left", "[a-zq-f] - [x]", [[97, 122], [113, 102], [120, 120]]),
               ("rr-astral", "[\\U0001F600-\\U0001F5FF]", [[0x1F600, 0x1F5FF]]), ("rr-three", "[a-ce-gf-d]", [[97, 99], [101, 103], [102, 100]])]
    for tag, cls, rs in company:
        for where in ("default", "mode"):
            add("reversed-range:%s@%s" % (tag, where), lambda s, w=where, c=cls, r=rs: place(s, w, D("token", "RC = %s 'k'" % c, "RC", ranges=r, lits=["k"])))
    okcompany = [("eq", "[a-a]", [[97, 97]]), ("nested", "[a-zb-m]", [[97, 122], [98, 109]]), ("touch", "[a-cd-f]", [[97, 99], [100, 102]]),
                 ("overlap", "[a-mf-z]", [[97, 109], [102, 122]]), ("dup", "[a-fa-f]", [[97, 102], [97, 102]]), ("unordered", "[x-za-c]", [[120, 122], [97, 99]])]
    for tag, cls, rs in okcompany:
        add("wellformed-range:%s" % tag, lambda s, c=cls, r=rs: place(s, "default", D("token", "RC = %s 'k'" % c, "RC", ranges=r, lits=["k"])))
    add("empty-literal-parser@b", lambda s: mutrule(s, "b", " | '' NUM", prefs=["NUM"], aliases=[""]))
    add("empty-literal-parser-list@a", lambda s: mutrule(s, "a", " @list(item, '')", prefs=["item"], aliases=[""]))
    add("empty-literal-macro", lambda s: place(s, "default", D("macro", "@macro EM = 'a' | ''", "EM", lits=["a", ""])))

    def macro_rr_used(s):
        m = place(s, "default", D("macro", "@macro RM = [z-a]", "RM", ranges=[[122, 97]]))
        place(s, "default", D("token", "USES = RM 'k'", "USES", macrorefs=["RM"], lits=["k"]))
        return m
    add("reversed-range-macro-used", macro_rr_used)
    add("reversed-range-macro-unused", lambda s: place(s, "default", D("macro", "@macro RM = [z-a]", "RM", ranges=[[122, 97]])))
    return out


SIGS = {
    # mechanism-level names for classes of disagreement (matched against known_findings.json)
}


def c17(tier):
    rep = Report("C17", tier)
    sc = scratch("c17")
    vs = variants()
    root = os.path.join(sc, "wf")
    dirs, cases = [], []
    for i, (vid, spec, fault) in enumerate(vs):
        files, flat = render(spec)
        d = os.path.join(root, "v%03d" % i)
        os.makedirs(d, exist_ok=True)
        for fn, txt in files.items():
            open(os.path.join(d, fn), "w").write(txt)
        fidx = 0
        if fault is not None:
            for k, r in enumerate(flat):
                if r["_ref"] is fault:
                    fidx = k + 1
        dirs.append(d)
        cases.append({"id": vid, "files": files, "flat": flat, "fault": fidx})
    dumps = props_lalr.dump_dirs(sc, dirs)
    wcases = []
    for c, dmp in zip(cases, dumps):
        if dmp["panic"]:
            rep.failure("c17.panic:" + c["id"], "front-end panicked: " + dmp["panic"], {"id": c["id"], "files": c["files"]})
        accepted = bool(dmp["ok"]) and not dmp["conflicts"]
        if dmp["ok"] and dmp["conflicts"]:
            accepted = True   # conflicts are not a well-formedness matter (C04)
        diag = []
        for ln in dmp["diag"].splitlines():
            m = re.match(r"^(.*?):(\d+)(?::(\d+))?: ", ln)
            if m:
                diag.append({"file": os.path.basename(m.group(1)), "line": int(m.group(2))})
        c["accepted"], c["diag"] = accepted, dmp["diag"]
        wcases.append({"id": c["id"], "decls": [tlc_decl(r) for r in c["flat"]], "accepted": accepted, "diaglines": diag, "fault": c["fault"]})
    sd = spec_dir(sc, "spec-wf")
    json.dump(wcases, open(os.path.join(sd, "wf_cases.json"), "w"))
    open(os.path.join(sd, "WellFormed.cfg"), "w").write("SPECIFICATION Spec\nCHECK_DEADLOCK FALSE\n")
    r = tlc(sc, "WellFormed", cfg="WellFormed.cfg", cwd=sd, timeout=900)
    tlc_must(r, "WellFormed")
    vsd = {l["c"]: l for l in r.lines if l.get("wfv") == "v"}
    if r.violation or len(vsd) != len(wcases):
        raise Infra("WellFormed judged %d of %d (%s)\n%s" % (len(vsd), len(wcases), r.violation, r.out[-1500:]))
    nfault = 0
    for i, c in enumerate(cases):
        v = vsd[i]
        kind = c["id"].split("@")[0]
        if not v["wf"]:
            nfault += 1
        if not v["agree"]:
            if c["accepted"]:
                sig = "c17.accepts:" + kind
                desc = "variant %s is ill-formed (%s) but lox accepts it" % (c["id"], [k for k, ok in v["rules"].items() if not ok])
            else:
                sig = "c17.rejects:" + kind
                desc = "variant %s is well formed but lox rejects it: %s" % (c["id"], c["diag"][:200].replace("\n", " | "))
            rep.failure(sig, desc, {"id": c["id"], "files": c["files"], "diagnostics": c["diag"]})
        elif not v["placed"]:
            f = c["flat"][c["fault"] - 1]
            rep.failure("c17.diagnostic-misplaced:" + kind,
                        "variant %s: no diagnostic points into the faulty declaration (%s lines %d-%d): %s" % (
                            c["id"], f["file"], f["l1"], f["l2"], c["diag"][:300].replace("\n", " | ")),
                        {"id": c["id"], "files": c["files"], "diagnostics": c["diag"]})
    rep.coverage = {
        "evaluations": len(cases), "distinct_nontrivial": nfault,
        "rule": "a well-formed two-file base specification (macro, tokens, mode, fragments, @external, @list, aliases) and every single-fault "
                "variant of it: duplicate names across kinds, each naming rule, undefined/ambiguous references of every kind, macro cycles "
                "(direct/mutual, used/unused), zero/two @start, @discard/@emit on tokens, two of each on fragments, empty literals, reversed "
                "ranges -- each placed in the default section, inside a mode and in the second file; plus well-formed variations; "
                "non-trivial = variant that WellFormed.tla judges ill-formed",
        "variants": len(cases), "states": r.distinct, "transitions": r.states,
        "samples": [{"id": cases[1]["id"], "a.lox": cases[1]["files"]["a.lox"]}, {"id": cases[-1]["id"], "fault_decl": cases[-1]["fault"]}],
        "exhaustive": True,
    }
    rep.assumptions = ["TLC/SANY", "the abstract rendering of each variant (lib/props_wellformed.py) matches its text",
                       "front-end verdict taken in-process (parser.Parse + ast.Analyze) through harness/cmd/dump",
                       "don't-cares never generated: rules of different files matching the same text, @discard with @emit, non-simple @list arguments"]
    return rep.finish("exploration")
