"""Grammar cases: a tiny text DSL for curated shapes, a small-scope enumerator
and a seeded random generator.  All produce the abstract case of pcase.py."""
import re, random, itertools


def gram(cid, text, bounds=True, terms0=None):
    """DSL:  one rule per line `name = alt | alt`, first rule is @start unless
    a line starts with '@start'.  Terms: UPPER tokens, lower rules, suffixes
    ? * + *! ; @list(x,y) ; @list(x,y)? ; @error ; @empty ; @left(n)/@right(n)."""
    lines = [l.strip() for l in text.strip().splitlines() if l.strip()]
    rules, names = [], []
    for l in lines:
        start = False
        if l.startswith("@start"):
            start = True
            l = l[len("@start"):].strip()
        name, rhs = l.split("=", 1)
        rules.append([name.strip(), rhs.strip(), start])
        names.append(name.strip())
    terms = list(terms0 or [])      # preset terminal order (the numbering of a given @lexer section)

    def sym(s):
        if s in names:
            return 0, names.index(s)
        if s not in terms:
            terms.append(s)
        return 1, terms.index(s)
    out = []
    startidx = 0
    for ri, (name, rhs, st) in enumerate(rules):
        if st:
            startidx = ri
        prods = []
        for alt in rhs.split("|"):
            alt = alt.strip()
            prec, assoc = 0, 0
            m = re.search(r"@(left|right)\((\d+)\)\s*$", alt)
            if m:
                assoc = 1 if m.group(1) == "right" else 0
                prec = int(m.group(2))
                alt = alt[:m.start()].strip()
            ts = []
            if alt != "@empty":
                for tok in re.findall(r"@list\(\s*\w+\s*,\s*\w+\s*\)\??|@error|\w+(?:\*!|\*|\+|\?)?", alt):
                    if tok == "@error":
                        ts.append({"k": "err", "t": 0, "i": 0, "st": 0, "si": 0})
                    elif tok.startswith("@list"):
                        m2 = re.match(r"@list\(\s*(\w+)\s*,\s*(\w+)\s*\)(\??)", tok)
                        t, i = sym(m2.group(1))
                        st_, si = sym(m2.group(2))
                        ts.append({"k": "listopt" if m2.group(3) else "list", "t": t, "i": i, "st": st_, "si": si})
                    else:
                        m2 = re.match(r"(\w+?)(\*!|\*|\+|\?)?$", tok)
                        t, i = sym(m2.group(1))
                        k = {None: "sym", "?": "opt", "*": "star", "*!": "starF", "+": "plus"}[m2.group(2)]
                        ts.append({"k": k, "t": t, "i": i, "st": 0, "si": 0})
            prods.append({"terms": ts, "prec": prec, "assoc": assoc})
        out.append({"name": name, "prods": prods})
    return {"id": cid, "terms": terms, "rules": out, "start": startidx, "bounds": bounds}


# ------------------------------------------------------------------ curated shapes

CURATED_LANG = [
    # nullable rule reachable twice behind a non-terminal (FIRST with shared `visited`)
    ("first-shared-visited", "s = cc bb bb X\ncc = C\nbb = @empty"),
    ("first-shared-visited2", "s = aa bb aa C\naa = A | @empty\nbb = B | @empty"),
    ("first-shared-visited3", "s = x y x y Z\nx = opt A\ny = B | @empty\nopt = @empty"),
    ("nullable-chain", "s = a b c D\na = A | @empty\nb = a B | @empty\nc = b a | C"),
    # nullable left recursion / hidden left recursion
    ("left-rec", "s = s A | B"),
    ("right-rec", "s = A s | B"),
    ("both-rec", "s = l r\nl = l A | A\nr = B r | B"),
    ("hidden-left-rec", "s = n s A | B\nn = @empty"),
    ("nullable-left-rec", "s = s A | @empty"),
    ("nested-empty", "s = a b C\na = b b\nb = @empty"),
    ("palin-ish", "s = A s A | B"),
    ("expr-ll", "e = t ep\nep = P t ep | @empty\nt = f tp\ntp = M f tp | @empty\nf = L e R | N"),
    ("expr-lr", "e = e P t | t\nt = t M f | f\nf = L e R | N"),
    # sugar in first / middle / last position
    ("opt-first", "s = A? B"),
    ("opt-mid", "s = A B? C"),
    ("opt-last", "s = A B?"),
    ("star-first", "s = A* B"),
    ("star-mid", "s = A B* C"),
    ("star-last", "s = A B*"),
    ("plus-first", "s = A+ B"),
    ("plus-mid", "s = A B+ C"),
    ("plus-last", "s = A B+"),
    ("star-next-opt", "s = A* B? C"),
    ("star-star", "s = A* B* C"),
    ("list-first", "s = @list(A, B) C"),
    ("list-mid", "s = C @list(A, B) D"),
    ("list-last", "s = C @list(A, B)"),
    ("listopt-first", "s = @list(A, B)? C"),
    ("listopt-mid", "s = C @list(A, B)? D"),
    ("listopt-last", "s = C @list(A, B)?"),
    ("list-of-rule", "s = @list(x, C) D\nx = A | B B"),
    ("list-sep-rule", "s = @list(A, sep)\nsep = B | C"),
    ("starF-tokens", "s = A*! C"),
    ("starF-rules", "s = x*! C\nx = A | A B"),
    ("opt-of-rule", "s = x? C\nx = A B | B"),
    ("star-of-rule", "s = x* C\nx = A B | B"),
    ("plus-of-rule", "s = C x+\nx = A B | B"),
    ("same-sugar-twice", "s = A* B A*"),
    ("sugar-shared-across-rules", "s = x A* C\nx = B A* D"),
    ("nullable-sugar-only", "s = A* B?"),
    ("star-of-nullable-free", "s = x* \nx = A B? "),
    ("deep-nest", "s = A s B | x\nx = C x | @empty"),
    ("dangling-free", "s = I s E s F | O"),
    ("lr1-lookahead-needed", "s = a A | b B\na = C\nb = C"),
    ("reduce-reduce-free-lalr", "s = A x C | B x D\nx = E"),
    ("json-ish", "v = O @list(m, C)? P | Q @list(v, C)? R | S\nm = S D v"),
    ("stmt-list", "p = st*\nst = I E | L p R | K I?"),
]


def _wide():
    """table rows wider than any bundled grammar has: a state with 18 non-terminal transitions (goto row) and a state with
    20 terminal actions, the rules / terminals declared in *descending* name order (lox orders row entries by name in some
    places and by index in others; a lookup that assumes one order on a row emitted in the other only fails on wide rows)"""
    import string
    T = "ABCDE"
    pairs = [(a, b) for a in T for b in T][:18]
    names = ["%s%02d" % (string.ascii_lowercase[25 - i], i) for i in range(18)]       # z00 y01 x02 ... declared in this order
    lines = ["s = st+", "st = " + " | ".join(names)] + ["%s = %s %s" % (n, a, b) for n, (a, b) in zip(names, pairs)]
    wide_goto = ("wide-goto-row", "\n".join(lines))
    toks = ["%s%s" % (string.ascii_uppercase[25 - i], string.ascii_uppercase[i]) for i in range(20)]   # ZA YB XC ...
    wide_act = ("wide-action-row", "s = " + " | ".join("%s %s" % (t, toks[(i * 7 + 3) % 20]) for i, t in enumerate(toks)))
    return [wide_goto, wide_act]


CURATED_LANG += _wide()

# grammars with @error (C09; also C01 for the clean part)
CURATED_ERR = [
    ("err-alone", "s = A B | @error"),
    ("err-first", "s = A B C | @error C"),
    ("err-mid", "s = A B C | A @error C"),
    ("err-last", "s = A B | A @error"),
    ("err-stmt", "s = block | @error\nblock = L stmt* R | @error R\nstmt = I S | @error S | block"),
    ("err-in-star", "s = st* E\nst = A S | @error S"),
    ("err-in-list", "s = L @list(it, C) R\nit = A | @error"),
    ("err-shared-core", "s = A e C | B e D\ne = @error"),
    ("err-shared-core2", "s = A e C | B e D\ne = @error | X"),
    ("err-nested", "s = a E\na = L b R | @error\nb = A | @error R2"),
    ("err-two-rules", "s = x y\nx = A | @error B\ny = C | @error D"),
    ("err-opt", "s = A x? C\nx = B | @error"),
    ("err-calc", "e = e P t | t\nt = N | L e R | L @error R"),
    ("no-err", "s = A B C | A C"),
    ("err-at-start-only", "s = @error"),
    ("err-then-tokens", "s = @error A B | C"),
    ("err-after-nullable", "s = n @error A | B\nn = @empty"),
    # @error as the last symbol of a repeated construct: ERROR itself is a lookahead of the state after @error
    ("err-rep-star", "s = item*\nitem = A B | @error"),
    ("err-rep-plus", "s = item+ E\nitem = A B | @error"),
    ("err-rep-list", "s = @list(item, C)\nitem = A | @error"),
    ("err-adjacent-rules", "s = x y\nx = A | @error\ny = B | @error"),
    ("err-nested-rep", "s = blk*\nblk = L item* R | @error\nitem = A | @error"),
    ("err-twice-in-prod", "s = @error A @error B | C"),
    ("err-opt-then-err", "s = x? y E\nx = A | @error\ny = B | @error"),
    ("err-left-rec", "s = s A | s @error | B"),
    ("err-right-rec", "s = A s | @error s | B"),
    # recovery pops shifted tokens and the parser then *reduces* on the ERROR lookahead: the reduced span ends
    # before the last token that was shifted
    ("err-pop-then-reduce", "s = st+\nst = e | @error S\ne = e P N | N"),
    ("err-pop-then-reduce-opt", "s = st* E\nst = A b? | @error S\nb = B C"),
    ("err-pop-then-reduce-nested", "s = L st* R\nst = e S? | @error S\ne = N | e P N | L e R"),
]

CURATED_BOUNDS = [
    # nullable rules on a cycle (nullability needs a fixed point, not one depth-first pass): the empty alternative written
    # after / before the production that names the other rule of the cycle, the cycle entered at either rule
    ("b-nullable-cycle", "file = lines\nlines = lead L | @empty\nlead = lines N*"),
    ("b-nullable-cycle-empty-first", "file = lines\nlines = @empty | lead L\nlead = lines N*"),
    ("b-nullable-cycle-other-entry", "@start file = lead L\nlines = lead L | @empty\nlead = lines N*"),
    ("b-nullable-cycle-3", "s = a\na = b X | @empty\nb = c Y?\nc = a Z*"),
    ("b-nullable-cycle-right", "s = X a\na = X b | @empty\nb = Y? a"),
    ("b-nullable-cycle-wrapped", "s = w E\nw = lines\nlines = lead L | @empty\nlead = lines N*"),
    ("b-nullable-start", "s = n A B\nn = @empty"),
    ("b-nullable-mid", "s = A n B\nn = @empty"),
    ("b-nullable-end", "s = A B n\nn = @empty"),
    ("b-all-empty", "s = n m\nn = @empty\nm = n n"),
    ("b-nested-empties", "s = a B a\na = b b\nb = @empty | C"),
    ("b-opt", "s = A? B C?"),
    ("b-star", "s = A* B C*"),
    ("b-plus", "s = A+ B"),
    ("b-list", "s = @list(x, C) D?\nx = A | A B"),
    ("b-listopt", "s = L @list(x, C)? R\nx = A | n B\nn = @empty"),
    ("b-expr", "e = e P t | t\nt = N | L e R"),
    ("b-star-rule", "s = x* E\nx = A n B n\nn = @empty"),
    ("b-opt-rule-empty", "s = x? A\nx = B | n C\nn = @empty"),
    # list / optional helper reductions over elements that derive nothing
    ("b-list-nullable-elem", "s = @list(x, C) D\nx = A | @empty"),
    ("b-list-nullable-elem-last", "s = D @list(x, C)\nx = A B | @empty"),
    ("b-listopt-nullable-elem", "s = L @list(x, C)? R\nx = A | @empty"),
    ("b-list-nullable-sep", "s = @list(A, sep) D\nsep = C | @empty"),
    ("b-opt-of-nullable-free", "s = L x? R\nx = n A n\nn = @empty"),
    ("b-star-after-empty", "s = n A* n B\nn = @empty"),
]


def curated(which):
    src = {"lang": CURATED_LANG, "err": CURATED_ERR, "bounds": CURATED_BOUNDS}[which]
    return [gram(n, t) for n, t in src]


# ------------------------------------------------------------------ random grammars

def random_grammar(rng, cid, nrules=None, nterms=None, sugar=0.3, err=0.0, prec=False, maxalts=3, maxlen=4):
    nrules = nrules or rng.randint(1, 4)
    nterms = nterms or rng.randint(2, 4)
    terms = [chr(ord("A") + i) for i in range(nterms)]
    rules = []
    for r in range(nrules):
        prods = []
        for _ in range(rng.randint(1, maxalts)):
            n = rng.choice([0, 1, 1, 2, 2, 2, 3, 3, 4][:2 + maxlen * 2])
            ts = []
            for _ in range(n):
                if err and rng.random() < err:
                    ts.append({"k": "err", "t": 0, "i": 0, "st": 0, "si": 0})
                    continue
                # bias to terminals, and to rules with a larger index (fewer cycles)
                if rng.random() < 0.55:
                    t, i = 1, rng.randrange(nterms)
                else:
                    t, i = 0, rng.randrange(nrules)
                k = "sym"
                st = si = 0
                if rng.random() < sugar:
                    k = rng.choice(["opt", "star", "plus", "starF", "list", "listopt"])
                    if k in ("list", "listopt"):
                        st, si = 1, rng.randrange(nterms)
                ts.append({"k": k, "t": t, "i": i, "st": st, "si": si})
            p = {"terms": ts, "prec": 0, "assoc": 0}
            if prec and n >= 2 and rng.random() < 0.5:
                p["prec"] = rng.randint(1, 3)
                p["assoc"] = rng.randint(0, 1)
            prods.append(p)
        # no duplicate productions inside a rule (trivially ambiguous)
        seen, uniq = set(), []
        for p in prods:
            key = repr(p["terms"])
            if key not in seen:
                seen.add(key)
                uniq.append(p)
        rules.append({"name": "r%d" % r, "prods": uniq})
    return {"id": cid, "terms": terms, "rules": rules, "start": 0, "bounds": True}


def well_formed(case):
    """every rule reachable and productive (otherwise lox and the oracle agree
    trivially or the oracle's viability needs productivity)"""
    n = len(case["rules"])

    def rule_refs(p):
        out = set()
        for T in p["terms"]:
            if T["k"] == "err":
                continue
            if T["t"] == 0:
                out.add(T["i"])
            if T["k"] in ("list", "listopt") and T["st"] == 0:
                out.add(T["si"])
        return out
    reach, todo = {case["start"]}, [case["start"]]
    while todo:
        r = todo.pop()
        for p in case["rules"][r]["prods"]:
            for q in rule_refs(p):
                if q not in reach:
                    reach.add(q)
                    todo.append(q)
    if len(reach) != n:
        return False
    prod = set()
    changed = True
    while changed:
        changed = False
        for r in range(n):
            if r in prod:
                continue
            for p in case["rules"][r]["prods"]:
                ok = True
                for T in p["terms"]:
                    if T["k"] in ("sym", "plus", "list") and T["t"] == 0 and T["i"] not in prod:
                        ok = False
                    if T["k"] == "list" and T["st"] == 0 and T["si"] not in prod:
                        ok = False
                if ok:
                    prod.add(r)
                    changed = True
                    break
    return len(prod) == n


def random_grammars(seed, n, prefix="rnd", **kw):
    rng = random.Random(seed)
    out = []
    tries = 0
    while len(out) < n and tries < n * 50:
        tries += 1
        g = random_grammar(rng, "%s-%d-%d" % (prefix, seed, tries), **kw)
        if well_formed(g):
            out.append(g)
    return out


# ------------------------------------------------------------------ small-scope exhaustive family

def small_scope(max_rules=2, nterms=2, max_prods=2, max_rhs=3, limit=None, stride=1, offset=0):
    """All grammars with <= max_rules user rules, nterms terminals, <= max_prods
    productions per rule, right-hand sides of plain symbols up to max_rhs.
    (stride/offset pick a deterministic sub-family.)"""
    out = []
    count = 0
    for nr in range(1, max_rules + 1):
        syms = [(1, i) for i in range(nterms)] + [(0, i) for i in range(nr)]
        rhss = [()]
        for L in range(1, max_rhs + 1):
            rhss += list(itertools.product(syms, repeat=L))
        prodsets = []
        for k in range(1, max_prods + 1):
            prodsets += list(itertools.combinations(rhss, k))
        for combo in itertools.product(prodsets, repeat=nr):
            count += 1
            if (count - offset) % stride != 0:
                continue
            rules = [{"name": "r%d" % r,
                      "prods": [{"terms": [{"k": "sym", "t": t, "i": i, "st": 0, "si": 0} for t, i in rhs],
                                 "prec": 0, "assoc": 0} for rhs in combo[r]]} for r in range(nr)]
            g = {"id": "ss-%d" % count, "terms": [chr(ord("A") + i) for i in range(nterms)],
                 "rules": rules, "start": 0, "bounds": True}
            if well_formed(g):
                out.append(g)
                if limit and len(out) >= limit:
                    return out
    return out


CURATED_CONFLICT = [
    # classics; expected verdicts come from the reference, these only make sure the shapes are present
    ("amb-expr", "e = e P e | N"),
    ("amb-expr-prec", "e = e P e @left(1) | e M e @left(2) | N"),
    ("amb-expr-right", "e = e P e @right(1) | N"),
    ("amb-expr-mixed", "e = e P e @left(1) | e Q e @right(1) | N"),
    ("amb-expr-two-right", "e = e P e @right(1) | e Q e @right(1) | N"),
    ("amb-expr-levels", "e = e P e @left(1) | e M e @left(2) | e W e @right(3) | L e R | N"),
    ("prec-one-side-only", "e = e P e @left(1) | e M e | N"),
    ("prec-unary", "e = e P e @left(1) | M e @left(2) | N"),
    ("prec-unary-low", "e = e P e @left(2) | M e @left(1) | N"),
    ("prec-across-rules", "e = e P t @left(1) | t\nt = e M e @left(2) | N"),
    ("prec-two-rules", "e = e P e @left(1) | t\nt = t M t @left(1) | N"),
    ("dangling-else", "s = I s | I s E s | O"),
    ("dangling-else-prec", "s = I s @left(1) | I s E s @left(2) | O"),
    ("dangling-else-prec-right", "s = I s @right(1) | I s E s @right(1) | O"),
    ("lr1-not-lalr", "s = A e C | A f D | B f C | B e D\ne = X\nf = X"),
    ("lr1-not-lalr-prec", "s = A e C | A f D | B f C | B e D\ne = X @left(1)\nf = X @left(1)"),
    ("reduce-reduce", "s = a | b\na = X\nb = X"),
    ("reduce-reduce-prec", "s = a @left(1) | b @left(2)\na = X @left(1)\nb = X @left(2)"),
    ("rr-qualified-same-rule", "s = x Y\nx = A @left(1) | A @left(2)"),
    ("srr-triple", "e = e P e @left(1) | e P @left(1) | N"),
    ("lalr-ok-not-slr", "s = l Q r | r\nl = M r | I\nr = l"),
    ("not-lr-palindrome", "s = A s A | A"),
    ("nullable-conflict", "s = a a\na = A | @empty"),
    ("opt-conflict", "s = A? A"),
    ("star-conflict", "s = A* A"),
    ("list-conflict", "s = @list(A, B) B C | D"),
    ("ternary-right", "e = e Q e C e @right(1) | e P e @left(2) | N"),
    ("postfix", "e = e P @left(3) | M e @left(2) | e A e @left(1) | N"),
    ("same-level-mixed-shifts", "e = e P e @left(1) | e P P e @left(2) | N"),
    # conflicts that involve the accept action (the start rule is left-recursive with a nullable tail / is a unit cycle)
    ("accept-reduce-unit-cycle", "s = s | A"),
    ("accept-reduce-nullable-tail", "s = s S? | I"),
    ("accept-reduce-qualified", "s = s n @left(1) | I @left(2)\nn = @empty"),
    ("accept-shift", "s = s A | s | B"),
    ("shift-two-levels", "e = e P N @left(1) | e P M @left(3) | e Q e @left(2) | N | M"),
]


def curated_conflict():
    return [gram(n, t) for n, t in CURATED_CONFLICT]


# ------------------------------------------------------------------ order variants and slow-fixpoint shapes

def reorder(case, order, tag):
    """the same grammar with its rules declared in another order (references are renumbered)"""
    import copy
    c = copy.deepcopy(case)
    n = len(c["rules"])
    newpos = {old: new for new, old in enumerate(order)}
    c["rules"] = [c["rules"][old] for old in order]

    def fix(T):
        if T["k"] != "err":
            if T["t"] == 0:
                T["i"] = newpos[T["i"]]
            if T["k"] in ("list", "listopt") and T["st"] == 0:
                T["si"] = newpos[T["si"]]
    for r in c["rules"]:
        for p in r["prods"]:
            for T in p["terms"]:
                fix(T)
    c["start"] = newpos[c["start"]]
    c["id"] = case["id"] + tag
    return c


def order_variants(cases, rng=None, reverse=True, shuffles=0):
    out = []
    for c in cases:
        n = len(c["rules"])
        if n < 2:
            continue
        if reverse:
            out.append(reorder(c, list(range(n - 1, -1, -1)), "~rev"))
        for k in range(shuffles):
            o = list(range(n))
            rng.shuffle(o)
            out.append(reorder(c, o, "~sh%d" % k))
    return out


def chain_family():
    """nullability / FIRST information that needs several passes over the productions to arrive:
    alias chains of depth d ending in an optional, declared forward or backward, used before or after"""
    out = []
    for d in (1, 2, 3, 4, 5):
        for shape in ("opt", "empty", "star"):
            last = {"opt": "Y?", "empty": "Y | @empty", "star": "Y*"}[shape]
            chain = ["c1 = Y Z | c2" if d > 1 else "c1 = Y Z | " + last.replace("Y | @empty", "@empty")]
            for k in range(2, d):
                chain.append("c%d = c%d" % (k, k + 1))
            if d > 1:
                chain.append("c%d = %s" % (d, last))
            users = ["s = head body", "head = P", "body = c1 X"]
            for order in ("fwd", "bwd"):
                ch = chain if order == "fwd" else list(reversed(chain))
                for pos in ("before", "after"):
                    lines = (users + ch) if pos == "before" else (["@start " + users[0]] and (ch + users))
                    txt = "\n".join(lines)
                    if pos == "after":
                        txt = txt.replace("s = head body", "@start s = head body")
                    out.append(gram("chain-%d-%s-%s-%s" % (d, shape, order, pos), txt))
    # nullability reached only through two different chains, and FIRST through a nullable prefix of nullable rules
    out.append(gram("chain-two-paths", "s = a b c X\na = a1\na1 = a2\na2 = A?\nb = b1 | B\nb1 = @empty\nc = a b"))
    out.append(gram("chain-first-through-prefix", "s = n1 n2 n3 T\nn1 = m1\nm1 = A?\nn2 = m2\nm2 = m3\nm3 = B*\nn3 = C | @empty"))
    out.append(gram("chain-mutual", "s = p Q\np = q R | r\nq = p S | r\nr = t\nt = u\nu = V?"))
    return out


def shift_family(kmax=3):
    """shift/reduce conflicts whose shift belongs to k productions of the rule: every assignment of
    {none, @left(1), @left(2), @right(1)} to the k productions (the documented rule needs *all* of them qualified)"""
    import itertools
    quals = ["", " @left(1)", " @left(2)", " @right(1)"]
    out = []
    for k in range(2, kmax + 1):
        tails = ["e", "X", "Y e", "Z Z"][:k]
        for qs in itertools.product(range(len(quals)), repeat=k):
            alts = ["e P %s%s" % (tails[i], quals[qs[i]]) for i in range(k)] + ["N"]
            out.append(gram("shift-%d-%s" % (k, "".join(str(q) for q in qs)), "e = " + " | ".join(alts)))
    return out


def rename_variants(cases):
    """the same grammars with terminal names whose sort order is reversed (lox orders symbols by *name* in several
    places: Next(), action rows, transition inputs), and rule names that sort before / after the helper names"""
    import copy
    out = []
    for c in cases:
        n = len(c["terms"])
        if n < 2:
            continue
        order = sorted(range(n), key=lambda i: c["terms"][i])
        v = copy.deepcopy(c)
        new = [None] * n
        for rank, i in enumerate(order):
            new[i] = "T%c%d" % (chr(ord("Z") - rank % 26), rank)      # TZ0 > TY1 > ... : reversed order
        v["terms"] = new
        v["id"] = c["id"] + "~names"
        out.append(v)
    return out


def self_nesting():
    """constructs that nest directly inside themselves: the state after the opening token loops back to itself and
    gains lookaheads through its own loop"""
    shapes = [
        ("nest-array", "array = LB RB | LB @list(value, COMMA) RB\nvalue = array | NUM"),
        ("nest-array-opt", "array = LB @list(value, COMMA)? RB\nvalue = array | NUM"),
        ("nest-paren-star", "e = LP e* RP | N"),
        ("nest-paren-plus", "s = g+\ng = LP g* RP | A"),
        ("nest-block", "b = OB st* CB\nst = b | I S | b S"),
        ("nest-two-brackets", "v = LB v RB | LC v RC | LB RB | N"),
        ("nest-prefix-chain", "e = M e | P e | LP e RP | N"),
        ("nest-self-list", "l = X l Y | X A | A B"),
        ("nest-rightrec-list", "s = l\nl = X l Y | X | A"),
    ]
    return [gram(n, t) for n, t in shapes]


def mixed_conflict_family():
    """one LALR state carrying conflicts on several lookaheads, some settled by the documented precedence rule and
    some not (reduce/reduce, cross-rule or unqualified shift/reduce), with the terminal of the unsettled one sorting
    before / between / after the settled ones (lox visits the lookaheads of a state in terminal-name order and the
    states in construction order: the verdict must be the disjunction over all cells, not that of the last cell);
    plus the multi-state versions (a fully settled state declared before / after an unsettled one)"""
    out = []
    unsettled = {
        # reduce/reduce on EOF between rules t and e
        "rr-eof": "s = e | t\nt = e {P} e\ne = e {P} e @left(1) | e {Q} e @left(2) | N",
        # reduce/reduce on a named terminal
        "rr-x": "s = e {X} | t {X}\nt = e {P} e\ne = e {P} e @left(1) | e {Q} e @left(2) | N",
        # shift/reduce against an unqualified production of the same rule
        "sr-unq": "e = e {P} e @left(1) | e {Q} e @left(2) | e {X} e | N",
        # shift/reduce against a production of another rule
        "sr-cross": "s = e | e {X} s\ne = e {P} e @left(1) | e {Q} e @left(2) | u\nu = N | N {X} N",
        # reduce/reduce between two qualified productions of one rule
        "rr-qual": "e = e {P} e @left(1) | e {Q} e @left(2) | n {X} @left(3) | m {X} @left(4) | N\nn = M\nm = M",
    }
    orders = {"first": ("TA", "TM", "TZ"), "mid": ("TM", "TA", "TZ"), "last": ("TZ", "TA", "TM")}   # X, P, Q
    for un, txt in unsettled.items():
        for on, (x, p, q) in orders.items():
            out.append(gram("mixc-%s-%s" % (un, on), txt.replace("{X}", x).replace("{P}", p).replace("{Q}", q)))
    # a control per order: the same operator rule alone is settled everywhere (must be accepted)
    for on, (x, p, q) in orders.items():
        out.append(gram("mixc-settled-%s" % on, "e = e %s e @left(1) | e %s e @right(2) | %s e @left(3) | N" % (p, q, x)))
    # two independent sub-languages: one settled, one not, in both declaration orders and both name orders
    good = "g = g {P} g @left(1) | G"
    bad = "b = b {X} b | B"
    for on, (x, p, q) in orders.items():
        for first in ("good", "bad"):
            body = (good + "\n" + bad) if first == "good" else (bad + "\n" + good)
            for top in ("s = g | K b", "s = K b | g"):
                out.append(gram("mixc-two-%s-%s-%d" % (on, first, len(out)),
                                (top + "\n" + body).replace("{X}", x).replace("{P}", p)))
    return out
