"""Lexer subjects: abstract lexer specification -> .lox + import-free Go package
exposing the generated state machine; runner binary driving it with the real
simplelexer v0.5.0; scraping of the emitted _lexerModeN tables.

Abstract case:
  {id, modes:[{name, rules:[RULE]}], macros:[{name, expr:R}]}      modes[0].name == "" is the default mode
  RULE = {kind:"token"|"frag", name, expr:R, actions:[["push",mode]|["pop"]|["emit",tok]|["discard"]]}
  R = {k:"lit",cs:[cp]} | {k:"cls",neg,items:[[lo,hi]],hassub,sneg,sitems} | {k:"any"}
    | {k:"cat"|"alt",es:[R]} | {k:"opt"|"star"|"plus"|"starng"|"plusng",es:[R]} | {k:"ref",name}
"""
import json, os, re, subprocess
from vlib import *

MAXRUNE = 0x10FFFF


def R(k, **kw):
    d = {"k": k, "cs": [], "neg": False, "items": [], "hassub": False, "sneg": False, "sitems": [], "es": [], "name": ""}
    d.update(kw)
    return d


def lit(s):
    return R("lit", cs=[ord(c) for c in s] if isinstance(s, str) else list(s))


def cls(items, neg=False, sub=None, sneg=False):
    its = []
    for it in items:
        if isinstance(it, str):
            if len(it) == 3 and it[1] == "-":
                its.append([ord(it[0]), ord(it[2])])
            else:
                for c in it:
                    its.append([ord(c), ord(c)])
        elif isinstance(it, int):
            its.append([it, it])
        else:
            its.append(list(it))
    d = R("cls", items=its, neg=neg)
    if sub is not None:
        s = cls(sub, neg=sneg)
        d["hassub"], d["sneg"], d["sitems"] = True, sneg, s["items"]
    return d


def anyc():
    return R("any")


def cat(*es):
    return R("cat", es=list(es))


def alt(*es):
    return R("alt", es=list(es))


def opt(e):
    return R("opt", es=[e])


def star(e):
    return R("star", es=[e])


def plus(e):
    return R("plus", es=[e])


def starng(e):
    return R("starng", es=[e])


def plusng(e):
    return R("plusng", es=[e])


def ref(n):
    return R("ref", name=n)


def esc_char(cp, in_class):
    if cp == 0x0A:
        return "\\n"
    if cp == 0x0D:
        return "\\r"
    if cp == 0x09:
        return "\\t"
    if cp == 0x5C:
        return "\\\\"
    if in_class and cp == 0x2D:
        return "\\-"
    if not in_class and cp == 0x27:
        return "\\'"
    if (0x30 <= cp <= 0x39) or (0x41 <= cp <= 0x5A) or (0x61 <= cp <= 0x7A) or cp in (0x20, 0x2B, 0x2A, 0x2F, 0x3C, 0x3E, 0x21, 0x25, 0x22, 0x7B, 0x7D, 0x28, 0x29, 0x3B, 0x2C, 0x2E, 0x3D) \
            or (not in_class and cp == 0x2D):
        return chr(cp)
    if cp <= 0xFFFF:
        return "\\u%04X" % cp
    return "\\U%08X" % cp


def render_class(neg, items):
    s = "~[" if neg else "["
    for lo, hi in items:
        s += esc_char(lo, True)
        if hi != lo:
            s += "-" + esc_char(hi, True)
    return s + "]"


def render_expr(e, top=True):
    k = e["k"]
    if k == "lit":
        return "'" + "".join(esc_char(c, False) for c in e["cs"]) + "'"
    if k == "any":
        return "."
    if k == "cls":
        s = render_class(e["neg"], e["items"])
        if e["hassub"]:
            s += " - " + render_class(e["sneg"], e["sitems"])
            if not top:
                s = "(" + s + ")"
        return s
    if k == "ref":
        return e["name"]
    if k == "cat":
        return " ".join(render_expr(x, False) if x["k"] != "alt" else "(" + render_expr(x) + ")" for x in e["es"])
    if k == "alt":
        s = " | ".join(render_expr(x, False) for x in e["es"])
        return s if top else "(" + s + ")"
    suffix = {"opt": "?", "star": "*", "plus": "+", "starng": "*?", "plusng": "+?"}[k]
    x = e["es"][0]
    if x["k"] in ("cat", "alt"):
        inner = "(" + render_expr(x, True) + ")"
    elif x["k"] in ("opt", "star", "plus", "starng", "plusng") or (x["k"] == "cls" and x["hassub"]):
        inner = "(" + render_expr(x, True) + ")"
    else:
        inner = render_expr(x, False)
    return inner + suffix


def render_action(a):
    if a[0] == "push":
        return "@push_mode(%s)" % (a[1] or "")
    if a[0] == "pop":
        return "@pop_mode"
    if a[0] == "emit":
        return "@emit(%s)" % a[1]
    if a[0] == "discard":
        return "@discard"
    raise ValueError(a)


def render_rule(r):
    acts = "".join("  " + render_action(a) for a in r.get("actions", []))
    if r["kind"] == "token":
        return "%s = %s%s" % (r["name"], render_expr(r["expr"]), acts)
    return "@frag %s%s" % (render_expr(r["expr"]), acts)


def token_names(case):
    """terminal numbering by declaration order: EOF ERROR then tokens / externals in file order"""
    out = []
    for m in case["modes"]:
        for r in m["rules"]:
            if r["kind"] == "token":
                out.append(r["name"])
    return out


def render_lox(case, with_parser=True):
    o = ["@lexer", ""]
    for mc in case.get("macros", []):
        o.append("@macro %s = %s" % (mc["name"], render_expr(mc["expr"])))
    # statements in case order: default-mode rules first, then each mode block
    for m in case["modes"]:
        if m["name"] == "":
            for r in m["rules"]:
                o.append(render_rule(r))
    for m in case["modes"]:
        if m["name"] != "":
            o.append("@mode %s {" % m["name"])
            for r in m["rules"]:
                o.append("  " + render_rule(r))
            o.append("}")
    if with_parser:
        first = token_names(case)[0]
        o += ["", "@parser", "", "@start s = %s" % first, ""]
    return "\n".join(o) + "\n"


def render_go(pkg):
    main = "\n".join([
        "package %s" % pkg, "", "type Token struct{ Ty int }", "", "type Parser struct{ lox }", "",
        "func (p *Parser) on_s(t Token) int { return 0 }", "",
        "type SM = _LexerStateMachine", "", "func NewSM() *SM { return new(_LexerStateMachine) }", "",
        "func TokName(t int) string { return _TokenToString(t) }", ""])
    peek = "\n".join([
        "//go:build peekstate", "", "package %s" % pkg, "",
        "func Peek(sm *SM) (int, int, int) {",
        "\tmi := 0", "\tif sm.mode != nil {", "\t\tmi = -1",
        "\t\tfor i, m := range _lexerModes {", "\t\t\tif &m[0] == &sm.mode[0] {", "\t\t\t\tmi = i", "\t\t\t}", "\t\t}", "\t}",
        "\treturn sm.state, len(sm.modeStack), mi", "}", ""])
    nopeek = "\n".join(["//go:build !peekstate", "", "package %s" % pkg, "",
                        "func Peek(sm *SM) (int, int, int) { return -1, -1, -1 }", ""])
    return main, peek, nopeek


def scrape_lexer(path):
    src = open(path).read()
    modes = []
    for m in re.finditer(r"var _lexerMode(\d+) = \[\]uint32\{(.*?)\n\}", src, re.S):
        modes.append((int(m.group(1)), [int(x) for x in re.findall(r"\d+", m.group(2))]))
    modes.sort()
    return [t for _, t in modes]


def scrape_base(path):
    src = open(path).read()
    m = re.search(r"const \((.*?)\n\)", src, re.S)
    consts = []
    if m:
        for ln in m.group(1).splitlines():
            mm = re.match(r"\s*(\w+)\s+int\s*=\s*(\d+)", ln)
            if mm:
                consts.append([mm.group(1), int(mm.group(2))])
    cases = re.findall(r"case (\w+):\s*\n\s*return \"([^\"]*)\"", src)
    return {"consts": consts, "tostring": [[a, b] for a, b in cases]}


def generate(sc, lox, mod, cases, timeout=120, prefix="l"):
    def one(arg):
        n, case = arg
        pkg = "%s%04d" % (prefix, n)
        d = os.path.join(mod, pkg)
        os.makedirs(d, exist_ok=True)
        main, peek, nopeek = render_go(pkg)
        if case.get("pre_lox_files"):
            # the directory's history: an earlier edit of the same project was generated here first
            for fn, txt in case["pre_lox_files"].items():
                open(os.path.join(d, fn), "w").write(txt)
            open(os.path.join(d, "lex.go"), "w").write(case.get("go_text", main).replace("PKGNAME", pkg))
            try:
                subprocess.run([lox, d], cwd=mod, env=GOENV, stdout=subprocess.PIPE, stderr=subprocess.PIPE, timeout=timeout)
            except subprocess.TimeoutExpired:
                pass
            for fn in case["pre_lox_files"]:
                os.remove(os.path.join(d, fn))
        if case.get("lox_files"):
            for fn, txt in case["lox_files"].items():
                open(os.path.join(d, fn), "w").write(txt)
        else:
            open(os.path.join(d, "l.lox"), "w").write(case.get("lox_text") or render_lox(case))
        open(os.path.join(d, "lex.go"), "w").write(case.get("go_text", main).replace("PKGNAME", pkg))
        open(os.path.join(d, "peek.go"), "w").write(peek)
        open(os.path.join(d, "nopeek.go"), "w").write(nopeek)
        try:
            p = subprocess.run([lox] + list(case.get("lox_flags", [])) + [d], cwd=mod, env=GOENV, stdout=subprocess.PIPE, stderr=subprocess.PIPE, timeout=timeout)
            rc, err = p.returncode, p.stderr.decode(errors="replace")
        except subprocess.TimeoutExpired:
            rc, err = -9, "timeout"
        g = {"exit": rc, "stderr": err, "dir": d, "pkg": pkg, "ok": rc == 0,
             "panic": ("panic:" in err or "goroutine " in err)}
        if g["ok"]:
            g["tables"] = scrape_lexer(os.path.join(d, "lexer.gen.go"))
            g["parser_src"] = os.path.join(d, "parser.gen.go")
            g["base"] = scrape_base(os.path.join(d, "base.gen.go"))
        case["gen"] = g
        return g
    pmap(one, list(enumerate(cases)))
    return cases


RUNNER = '''package main

import (
	"bufio"
	"encoding/json"
	"fmt"
	gotoken "go/token"
	"os"
	"unicode/utf8"

	"github.com/dcaiafa/loxlex/simplelexer"
%(imports)s
)

type subject struct {
	New  func() simplelexer.StateMachine
	Peek func(sm simplelexer.StateMachine) (int, int, int)
	Name func(t int) string
}

var subjects = map[string]subject{
%(table)s
}

type job struct {
	Case     string  `json:"case"`
	Alphabet []int   `json:"alphabet"` // runes; negative value -b means the raw byte b (invalid UTF-8)
	MaxLen   int     `json:"maxlen"`
	FullLen  int     `json:"fulllen"`
	Extra    [][]int `json:"extra"`    // inputs given as rune lists (negative = raw byte)
	Names    int     `json:"names"`    // > 0: also report _TokenToString(v) for v in -1..Names
}

type nameRec struct {
	Case  string     `json:"case"`
	Names [][2]any   `json:"names"`
}

type outRec struct {
	Case   string   `json:"case"`
	In     []int    `json:"in"`      // as given
	Chars  [][2]int `json:"chars"`   // decoded (rune, width) as bytes.Reader.ReadRune sees them
	Tokens [][4]int `json:"tokens"`  // ty, start, end, errchar
	Steps  [][5]int `json:"steps,omitempty"` // rune, code, state, depth, mode after the call
	NPush  int      `json:"npush"`
	NRead  int      `json:"nread"`
	Budget bool     `json:"budget"`
	Panic  string   `json:"panic"`
}

type budget struct{}

type wrap struct {
	sm    simplelexer.StateMachine
	peek  func(sm simplelexer.StateMachine) (int, int, int)
	steps [][5]int
	full  bool
	n     int
	max   int
}

func (w *wrap) PushRune(r rune) int {
	w.n++
	if w.n > w.max {
		panic(budget{})
	}
	c := w.sm.PushRune(r)
	if w.full {
		s, d, m := w.peek(w.sm)
		w.steps = append(w.steps, [5]int{int(r), c, s, d, m})
	}
	return c
}
func (w *wrap) Token() int { return w.sm.Token() }
func (w *wrap) Reset()     { w.sm.Reset(); if w.full { w.steps = append(w.steps, [5]int{-2, -2, 0, 0, 0}) } }

func seqInts(a, b int) []int {
	var out []int
	for v := a; v <= b; v++ {
		out = append(out, v)
	}
	return out
}

// safeName evaluates _TokenToString(v); a panic is an observation ("PANIC"), not a harness failure
func safeName(f func(int) string, v int) (name string) {
	defer func() {
		if e := recover(); e != nil {
			name = "PANIC"
		}
	}()
	return f(v)
}

func encode(in []int) []byte {
	var b []byte
	for _, r := range in {
		if r < 0 {
			b = append(b, byte(-r))
		} else {
			b = utf8.AppendRune(b, rune(r))
		}
	}
	return b
}

func runOne(s subject, cs string, in []int, full bool) (o outRec) {
	o.Case = cs
	o.In = append([]int{}, in...)
	data := encode(in)
	for i := 0; i < len(data); {
		r, w := utf8.DecodeRune(data[i:])
		o.Chars = append(o.Chars, [2]int{int(r), w})
		i += w
	}
	if o.Chars == nil {
		o.Chars = [][2]int{}
	}
	o.Tokens = [][4]int{}
	w := &wrap{sm: s.New(), peek: s.Peek, full: full, max: 8*len(data) + 64}
	defer func() {
		if e := recover(); e != nil {
			if _, ok := e.(budget); ok {
				o.Budget = true
			} else {
				o.Panic = fmt.Sprint(e)
			}
		}
		o.Steps = w.steps
		o.NPush = w.n
	}()
	fset := gotoken.NewFileSet()
	file := fset.AddFile("in", -1, len(data))
	lx := simplelexer.New(simplelexer.Config{StateMachine: w, File: file, Input: data})
	maxRead := 4*len(data) + 16
	for {
		o.NRead++
		if o.NRead > maxRead {
			o.Budget = true
			return
		}
		tok, ty := lx.ReadToken()
		start := int(tok.Pos) - file.Base()
		ec := 0
		if ue, ok := tok.Err.(simplelexer.UnexpectedCharacterError); ok {
			ec = int(ue.Char)
		}
		o.Tokens = append(o.Tokens, [4]int{ty, start, start + len(tok.Str), ec})
		if ty == simplelexer.EOF {
			return
		}
	}
}

func main() {
	jf, _ := os.Open(os.Args[1])
	var jobs []job
	if err := json.NewDecoder(jf).Decode(&jobs); err != nil {
		fmt.Fprintln(os.Stderr, err)
		os.Exit(2)
	}
	out := bufio.NewWriterSize(os.Stdout, 1<<20)
	enc := json.NewEncoder(out)
	for _, j := range jobs {
		s, ok := subjects[j.Case]
		if !ok {
			fmt.Fprintln(os.Stderr, "unknown case", j.Case)
			os.Exit(2)
		}
		if j.Names > 0 {
			nr := nameRec{Case: j.Case}
			for _, v := range append([]int{-1000000, -2}, seqInts(-1, j.Names)...) {
				nr.Names = append(nr.Names, [2]any{v, safeName(s.Name, v)})
			}
			enc.Encode(nr)
		}
		var rec func(w []int)
		rec = func(w []int) {
			enc.Encode(runOne(s, j.Case, w, len(w) <= j.FullLen))
			if len(w) >= j.MaxLen {
				return
			}
			for _, a := range j.Alphabet {
				rec(append(w, a))
			}
		}
		if j.MaxLen >= 0 {
			rec([]int{})
		}
		for _, w := range j.Extra {
			enc.Encode(runOne(s, j.Case, w, true))
		}
	}
	out.Flush()
}
'''


def build_runner(sc, mod, cases, name="runl", tags="peekstate"):
    ok = [c for c in cases if c["gen"]["ok"]]
    imports = "\n".join('\t%s "xv/%s"' % (c["gen"]["pkg"], c["gen"]["pkg"]) for c in ok)
    table = "\n".join(
        '\t"%(p)s": {New: func() simplelexer.StateMachine { return %(p)s.NewSM() }, '
        'Peek: func(sm simplelexer.StateMachine) (int, int, int) { return %(p)s.Peek(sm.(*%(p)s.SM)) }, Name: %(p)s.TokName},' % {"p": c["gen"]["pkg"]}
        for c in ok)
    d = os.path.join(mod, name)
    os.makedirs(d, exist_ok=True)
    open(os.path.join(d, "main.go"), "w").write(RUNNER % {"imports": imports, "table": table})
    out = os.path.join(sc, "bin", name)
    os.makedirs(os.path.dirname(out), exist_ok=True)
    p = run(["go", "build", "-tags", tags, "-o", out, "./" + name], cwd=mod, check=False, timeout=900)
    if p.returncode != 0 and tags:
        log("lexer runner build with tag failed, retrying without:\n" + p.stderr.decode()[-1500:])
        p = run(["go", "build", "-o", out, "./" + name], cwd=mod, check=False, timeout=900)
    if p.returncode != 0:
        raise Infra("generated lexer subjects do not build:\n" + p.stderr.decode()[-4000:])
    return out


def run_jobs(sc, runner, jobs, timeout=900, shards=None):
    shards = shards or NCPU
    buckets = [[] for _ in range(shards)]
    for i, j in enumerate(jobs):
        buckets[i % shards].append(j)
    buckets = [b for b in buckets if b]

    def one(arg):
        k, b = arg
        jf = os.path.join(sc, "ljobs-%d-%d.json" % (id(jobs) % 100000, k))
        json.dump(b, open(jf, "w"))
        try:
            p = subprocess.run([runner, jf], stdout=subprocess.PIPE, stderr=subprocess.PIPE, timeout=timeout)
        except subprocess.TimeoutExpired:
            raise Infra("lexer runner timeout")
        if p.returncode != 0:
            raise Infra("lexer runner failed: " + p.stderr.decode()[-2000:])
        return [json.loads(l) for l in p.stdout.decode().splitlines() if l.strip()]
    res = pmap(one, list(enumerate(buckets)))
    return [r for rs in res for r in rs]
