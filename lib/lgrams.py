"""Lexer specification cases: curated shapes and seeded random rule sets."""
import random
from lcase import *


def tok(name, expr, *actions):
    return {"kind": "token", "name": name, "expr": expr, "actions": [list(a) for a in actions]}


def frag(expr, *actions):
    return {"kind": "frag", "name": "", "expr": expr, "actions": [list(a) for a in actions]}


def spec(cid, default_rules, modes=None, macros=None):
    ms = [{"name": "", "rules": default_rules}]
    for n, rules in (modes or []):
        ms.append({"name": n, "rules": rules})
    return {"id": cid, "modes": ms, "macros": [{"name": n, "expr": e} for n, e in (macros or [])]}


WS = frag(plus(cls([" ", 0x0A])), ["discard"])

CURATED_GREEDY = [
    spec("kw-before-id", [tok("IF", lit("if")), tok("ID", plus(cls(["a-z"]))), WS]),
    spec("id-before-kw", [tok("ID", plus(cls(["a-z"]))), tok("IF", lit("if")), WS]),
    spec("prefix-chain", [tok("A", lit("a")), tok("AB", lit("ab")), tok("ABC", lit("abc")), WS]),
    spec("viable-outruns-match", [tok("ABC", cat(lit("ab"), lit("c"))), tok("A", lit("a")), tok("D", lit("d"))]),
    spec("adjacent-classes", [tok("L", plus(cls(["a-m"]))), tok("H", plus(cls(["n-z"]))), tok("D", plus(cls(["0-9"])))]),
    spec("multibyte", [tok("E", lit("é")), tok("CJK", plus(cls([[0x4E00, 0x9FFF]]))), tok("AST", cls([[0x1F600, 0x1F64F]])),
                       tok("ASCII", plus(cls([[0x21, 0x7E]])))]),
    spec("fffd-in-class", [tok("R", plus(cls([[0xFFFD, 0xFFFD]]))), tok("A", plus(cls(["a-z"])))]),
    spec("fffd-outside", [tok("HI", plus(cls([[0x80, 0xFFFC]]))), tok("A", plus(cls(["a-z"])))]),
    spec("negation", [tok("NOTAB", plus(cls(["a", "b"], neg=True))), tok("AB", plus(cls(["a", "b"])))]),
    spec("difference", [tok("CONS", plus(cls(["a-z"], sub=["a", "e", "i", "o", "u"]))), tok("VOW", plus(cls(["aeiou"])))]),
    spec("dot", [tok("LINE", cat(lit("#"), star(cls([0x0A], neg=True)))), tok("ANY", anyc())]),
    spec("number", [tok("NUM", cat(ref("INT"), opt(ref("FRAC")), opt(ref("EXP")))), tok("DOT", lit(".")), tok("ID", plus(cls(["a-z"]))), WS],
         macros=[("DIG", cls(["0-9"])), ("INT", alt(lit("0"), cat(cls(["1-9"]), star(ref("DIG"))))),
                 ("FRAC", cat(lit("."), plus(ref("DIG")))), ("EXP", cat(cls(["e", "E"]), opt(cls(["+", 0x2D])), plus(ref("DIG"))))]),
    spec("ops", [tok("LT", lit("<")), tok("LE", lit("<=")), tok("SHL", lit("<<")), tok("SHLEQ", lit("<<=")), tok("EQ", lit("=")), WS]),
    spec("alt-star", [tok("X", star(alt(lit("ab"), lit("a"))) if False else plus(alt(lit("ab"), lit("a")))), tok("B", lit("b"))]),
    spec("opt-chain", [tok("X", cat(lit("a"), opt(lit("b")), opt(lit("c")), lit("d"))), tok("A", lit("a")), tok("B", plus(cls(["b-d"])))]),
    spec("nested-groups", [tok("X", plus(cat(lit("a"), star(alt(lit("b"), cat(lit("c"), lit("d"))))))), tok("C", lit("c"))]),
    spec("boundary-0-max", [tok("LO", plus(cls([[0, 0x1F]]))), tok("HI", plus(cls([[0x10FFF0, 0x10FFFF]]))), tok("MID", plus(cls([[0x20, 0x10FFEF]])))]),
    spec("literal-mod-256", [tok("A", lit("A")), tok("A1", lit([0x141])), tok("A2", lit([0x10041])), tok("ELSE", plus(cls([[0x100, 0x140]])))]),
    spec("overlap-classes", [tok("X", plus(cls(["a-k"]))), tok("Y", plus(cls(["g-p"]))), tok("Z", plus(cls(["m-z"]))), tok("W", cat(cls(["a-z"]), lit("!")))]),
    spec("string", [tok("STR", cat(lit('"'), star(alt(cls(['"', 0x5C, 0x0A], neg=True), cat(lit([0x5C]), anyc()))), lit('"'))), tok("ID", plus(cls(["a-z"]))), WS]),
    spec("comment-greedy", [tok("DIV", lit("/")), frag(cat(lit("//"), star(cls([0x0A], neg=True))), ["discard"]), tok("ID", plus(cls(["a-z"]))), WS]),
    spec("frag-emit", [frag(plus(cls(["0-9"])), ["emit", "NUM"]), tok("NUM", lit("#")), tok("ID", plus(cls(["a-z"])))]),
    # the start state is equivalent to a mid-token state (minimisation may merge them)
    spec("start-equivalent-mid-state", [tok("A", cat(star(lit("x")), lit("a")))]),
    spec("start-equivalent-mid-state2", [tok("N", cat(star(cls(["0-9"])), lit("."), plus(cls(["0-9"])))), tok("S", lit(" "))]),
    # repetitions whose body can match the empty string (an epsilon-only cycle in the Thompson NFA): the "unrolled loop" idiom
    spec("nullable-body-ident", [tok("ID", cat(cls(["a-z"]), star(cat(star(cls(["a-z", "0-9"])), opt(lit("_")))))), tok("N", plus(cls(["0-9"]))), WS]),
    spec("nullable-body-string", [tok("STR", cat(lit('"'), star(alt(star(cls(["a-z"])), cat(lit([0x5C]), cls(["n", '"', 0x5C])))), lit('"'))),
                                  tok("ID", plus(cls(["a-z"]))), WS]),
    spec("nullable-body-plus", [tok("X", cat(plus(cat(opt(lit("a")), opt(lit("b")))), lit("c"))), tok("A", lit("a")), tok("B", lit("b"))]),
    spec("nullable-body-nested", [tok("Y", cat(star(star(star(lit("a")))), lit("z"))), tok("AZ", cat(lit("a"), lit("a"), lit("q"))), tok("A", lit("a"))]),
    spec("nullable-body-alt-opt", [tok("P", cat(lit("<"), star(alt(opt(lit("x")), cat(lit("y"), opt(lit("y"))))), lit(">"))), tok("LT", lit("<")), tok("XS", plus(lit("x")))]),
    spec("surrogate-edges", [tok("BELOW", plus(cls([[0xD000, 0xD7FF]]))), tok("ABOVE", plus(cls([[0xE000, 0xE0FF]]))), tok("A", lit("a"))]),
]

CURATED_MODES = [
    spec("doc-modes", [tok("PLUS", lit("+")), tok("MINUS", lit("-")), tok("OPAREN", lit("("), ["push", "Alt"])],
         modes=[("Alt", [tok("DASH", lit("-")), tok("CPAREN", lit(")"), ["pop"])])]),
    spec("nested", [tok("P0", lit("p")), tok("OA", lit("a"), ["push", "A"])],
         modes=[("A", [tok("P1", lit("p")), tok("OB", lit("b"), ["push", "B"]), tok("CA", lit("x"), ["pop"])]),
                ("B", [tok("P2", lit("p")), tok("CB", lit("x"), ["pop"]), tok("OA2", lit("a"), ["push", "A"])])]),
    spec("recursive", [tok("P0", lit("p")), tok("O", lit("("), ["push", "M"])],
         modes=[("M", [tok("P1", lit("p")), tok("O1", lit("("), ["push", "M"]), tok("C1", lit(")"), ["pop"])])]),
    spec("reenter-default", [tok("P0", lit("p")), tok("Q", lit('"'), ["push", "S"]), tok("CC", lit("}"), ["pop"])],
         modes=[("S", [tok("P1", lit("p")), tok("QE", lit('"'), ["pop"]), tok("OC", lit("{"), ["push", ""])])]),
    spec("doc-string-interp", [tok("NUM", plus(cls(["0-9"]))), tok("PLUS", lit("+")), tok("STR_BEGIN", lit('"'), ["push", "String"]),
                               tok("CCURLY", lit("}"), ["pop"])],
         modes=[("String", [tok("STR_END", lit('"'), ["pop"]),
                            tok("CHAR_SEQ", plus(alt(cls(['"', 0x0A, "{", "}", 0x5C], neg=True), cat(lit([0x5C]), cls(['"', "n", "r", "t", "{", "}", 0x5C]))))),
                            tok("OCURLY", lit("{"), ["push", ""])])]),
    spec("frag-accum-string", [tok("ID", plus(cls(["a-z"]))), frag(lit("'"), ["push", "Lit"]), WS],
         modes=[("Lit", [tok("LITERAL", lit("'"), ["pop"]), frag(cat(lit([0x5C]), cls([0x5C, "'", "n"]))), frag(cls([0x5C, 0x0A, "'"], neg=True))])]),
    spec("frag-emit-then-push", [tok("P0", lit("p")), tok("OC", lit("#")), frag(lit("{"), ["emit", "OC"], ["push", "M"])],
         modes=[("M", [tok("P1", lit("p")), tok("CC", lit("}"), ["pop"])])]),
    spec("frag-push-then-emit", [tok("P0", lit("p")), tok("OC", lit("#")), frag(lit("{"), ["push", "M"], ["emit", "OC"])],
         modes=[("M", [tok("P1", lit("p")), tok("CC", lit("}"), ["pop"])])]),
    spec("frag-discard-then-push", [tok("P0", lit("p")), frag(lit("{"), ["discard"], ["push", "M"])],
         modes=[("M", [tok("P1", lit("p")), tok("CC", lit("}"), ["pop"])])]),
    spec("pop-then-push", [tok("P0", lit("p")), tok("O", lit("("), ["push", "A"])],
         modes=[("A", [tok("P1", lit("p")), tok("SW", lit("|"), ["pop"], ["push", "B"]), tok("C1", lit(")"), ["pop"])]),
                ("B", [tok("P2", lit("p")), tok("C2", lit(")"), ["pop"])])]),
    spec("push-push", [tok("P0", lit("p")), tok("O", lit("("), ["push", "A"], ["push", "B"])],
         modes=[("A", [tok("P1", lit("p")), tok("C1", lit(")"), ["pop"])]),
                ("B", [tok("P2", lit("p")), tok("C2", lit(")"), ["pop"])])]),
    spec("pop-on-empty", [tok("P0", lit("p")), tok("C", lit(")"), ["pop"])]),
    spec("frag-accum-default", [tok("END", lit(";")), frag(plus(cls(["a-z"]))), frag(lit(" "), ["discard"])]),
    # a declared mode that nothing pushes, sorting before / between the modes that are pushed (mode numbers are positions in
    # the name-sorted list of *all* modes)
    spec("unused-mode-sorts-first", [tok("P0", lit("p")), tok("OT", lit("<"), ["push", "Tag"])],
         modes=[("Attr", [tok("PA", lit("p")), tok("QA", lit("q"))]),
                ("Tag", [tok("P1", lit("p")), tok("CT", lit(">"), ["pop"]), tok("OX", lit("'"), ["push", "Text"])]),
                ("Text", [tok("P2", lit("p")), tok("CX", lit("'"), ["pop"])])]),
    spec("unused-mode-in-the-middle", [tok("P0", lit("p")), tok("OA", lit("("), ["push", "A"])],
         modes=[("A", [tok("P1", lit("p")), tok("CA", lit(")"), ["pop"]), tok("OC", lit("["), ["push", "C"])]),
                ("B", [tok("PB", lit("p"))]),
                ("C", [tok("P2", lit("p")), tok("CC", lit("]"), ["pop"])])]),
    # a mode-switching rule whose match can be extended: it is a proper prefix of another rule, or ends in a repetition
    # (longest match decides first, then the mode action of the rule that won runs)
    spec("push-is-prefix", [tok("P0", lit("p")), tok("O1", lit("{"), ["push", "M"]), tok("O2", lit("{{")), tok("CC", lit("}"), ["pop"])],
         modes=[("M", [tok("P1", lit("p")), tok("C1", lit("}"), ["pop"]), tok("C2", lit("}}"))])]),
    spec("push-ends-in-repetition", [tok("P0", lit("p")), tok("HERE", cat(lit("<"), plus(cls(["A-C"]))), ["push", "M"])],
         modes=[("M", [tok("P1", lit("p")), tok("END", cat(lit(">"), star(lit(">"))), ["pop"])])]),
    spec("frag-push-is-prefix", [tok("P0", lit("p")), tok("OC", lit("#")), frag(lit("{"), ["push", "M"], ["emit", "OC"]), tok("DBL", lit("{{"))],
         modes=[("M", [tok("P1", lit("p")), tok("CC", lit("}"), ["pop"])])]),
]


def all_mode_action_cases():
    """every subset and permutation (size <= 3) of mode/terminal actions on one probe rule, for tokens and fragments"""
    import itertools
    out = []
    acts = [("push", "A"), ("push", ""), ("pop",), ("emit", "T"), ("discard",)]
    n = 0
    for size in (1, 2, 3):
        for combo in itertools.permutations(acts, size):
            kinds = [a[0] for a in combo]
            if kinds.count("emit") and kinds.count("discard"):
                continue
            for kind in ("token", "frag"):
                if kind == "token" and ("emit" in kinds or "discard" in kinds):
                    continue
                if not any(k in ("push", "pop") for k in kinds):
                    continue
                n += 1
                probe = tok("X", lit("x"), *combo) if kind == "token" else frag(lit("x"), *combo)
                out.append(spec("acts-%d-%s-%s" % (n, kind, "_".join(a[0] + (a[1] if len(a) > 1 else "") for a in combo)),
                                [tok("P0", lit("p")), tok("T", lit("t")), tok("O", lit("("), ["push", "A"]), probe],
                                modes=[("A", [tok("P1", lit("p")), tok("C1", lit(")"), ["pop"]), tok("O1", lit("("), ["push", "A"]),
                                              (tok("X1", lit("x"), *combo) if kind == "token" else frag(lit("x"), *combo))])]))
    return out


def ng_cases():
    out = []
    prefixes = [("none", None), ("cmt", lit("/*")), ("lt", lit("<"))]
    bodies = [("dot", anyc()), ("cls", cls(["a-z", "*", "/"])), ("alt", alt(cls(["a", "b"]), lit("*"), lit("/")))]
    terms = [("cmtend", lit("*/")), ("aa", lit("aa")), ("aab", lit("aab")), ("nl", lit([0x0A])), ("b", lit("b"))]
    n = 0
    for pn, p in prefixes:
        for bn, b in bodies:
            for tn, t in terms:
                for ngk, ngf in (("starng", starng), ("plusng", plusng)):
                    n += 1
                    parts = ([p] if p else []) + [ngf(b), t]
                    rules = [tok("X", cat(*parts)), tok("NUM", plus(cls(["0-9"]))), frag(lit(" "), ["discard"])]
                    out.append(spec("ng-%s-%s-%s-%s" % (pn, bn, tn, ngk), rules))
    # bodies written as a class difference / through a macro; the rule inside a mode; two non-greedy rules sharing a prefix
    out.append(spec("ng-cmt-diffbody-cmtend-starng", [tok("X", cat(lit("/*"), starng(cls(["a-z", "*", "/"], sub=["q"])), lit("*/"))), tok("NUM", plus(cls(["0-9"]))), frag(lit(" "), ["discard"])]))
    out.append(spec("ng-cmt-macrobody-cmtend-starng", [tok("X", cat(lit("/*"), starng(ref("BODY")), lit("*/"))), tok("NUM", plus(cls(["0-9"]))), frag(lit(" "), ["discard"])],
                    macros=[("BODY", alt(cls(["a-z"]), lit("*"), lit("/")))]))
    out.append(spec("ng-lt-macrobody-aab-plusng", [tok("X", cat(lit("<"), plusng(ref("BODY")), lit("aab"))), tok("NUM", plus(cls(["0-9"]))), frag(lit(" "), ["discard"])],
                    macros=[("BODY", cls(["a-b"]))]))
    out.append(spec("ng-cmt-inmode-dot-cmtend-starng", [tok("X", lit("#")), tok("NUM", plus(cls(["0-9"]))), tok("O", lit("("), ["push", "M"]), frag(lit(" "), ["discard"])],
                    modes=[("M", [tok("C", lit(")"), ["pop"]), tok("XM", cat(lit("/*"), starng(anyc()), lit("*/"))), tok("N2", plus(cls(["0-9"])))])]))
    out.append(spec("ng-two-shared-prefix", [tok("X", cat(lit("<!"), starng(anyc()), lit("!>"))), tok("Y", cat(lit("<"), starng(cls(["a-z", "!", ">"])), lit(">"))),
                                             tok("NUM", plus(cls(["0-9"])))]))
    # greedy neighbours overlapping the non-greedy rule's prefix, both declaration orders
    out.append(spec("ng-overlap-id-after", [tok("X", cat(lit("a"), starng(anyc()), lit("b"))), tok("ID", plus(cls(["a-z"])))]))
    out.append(spec("ng-overlap-id-before", [tok("ID", plus(cls(["a-z"]))), tok("X", cat(lit("a"), starng(anyc()), lit("b")))]))
    out.append(spec("ng-and-greedy-alt", [tok("X", cat(alt(cat(lit("a"), starng(anyc())), cat(lit("c"), star(anyc()))), lit("b")))]))
    out.append(spec("ng-comment-and-div", [tok("DIV", lit("/")), tok("STAR", lit("*")), frag(cat(lit("/*"), starng(anyc()), lit("*/")), ["discard"]),
                                          tok("ID", plus(cls(["a-z"])))]))
    # the non-greedy rule also carries a mode action (its accepting row has the mode action first, the terminal action last)
    out.append(spec("ng-inmode-pop-starng", [tok("P0", lit("p")), tok("O", lit("<"), ["push", "M"]), frag(lit(" "), ["discard"])],
                    modes=[("M", [tok("COMMENT", cat(lit("!--"), starng(cls(["a-z", " ", "-"])), lit("--")), ["pop"]),
                                  tok("PI", cat(lit("?"), plusng(cls(["a-z", "?", ">"])), lit("?>")), ["pop"]), tok("P1", lit("p"))])]))
    out.append(spec("ng-inmode-push-starng", [tok("X", cat(lit("/*"), starng(anyc()), lit("*/")), ["push", "M"]), tok("P0", lit("p")), frag(lit(" "), ["discard"])],
                    modes=[("M", [tok("C", lit(")"), ["pop"]), tok("P1", lit("p")), tok("S", lit("*")), tok("D", lit("/"))])]))
    out.append(spec("ng-inmode-frag-pop-discard", [tok("P0", lit("p")), tok("O", lit("("), ["push", "M"])],
                    modes=[("M", [frag(cat(lit("#"), starng(cls(["a-z", "#", ";"])), lit(";")), ["pop"], ["discard"]), tok("P1", lit("p"))])]))
    out.append(spec("ng-inmode-pop-push-plusng", [tok("P0", lit("p")), tok("O", lit("("), ["push", "M"])],
                    modes=[("M", [tok("SW", cat(lit("["), plusng(cls(["a-b", "]"])), lit("]]")), ["pop"], ["push", "N"]), tok("P1", lit("p"))]),
                           ("N", [tok("P2", lit("p")), tok("C2", lit(")"), ["pop"])])]))
    return out


def nullable_cases():
    return [
        spec("nullable-star", [tok("X", star(lit("a"))), tok("B", lit("b"))]),
        spec("nullable-opt", [tok("X", opt(lit("a"))), tok("B", lit("b"))]),
        spec("bolox-charseq", [tok("STR_BEGIN", lit('"'), ["push", "String"])],
             modes=[("String", [tok("STR_END", lit('"'), ["pop"]),
                                tok("CHAR_SEQ", star(alt(cls(['"', 0x0A, "{", "}", 0x5C], neg=True), cat(lit([0x5C]), cls(["n", "{", "}"])))))])]),
        spec("nullable-frag", [frag(star(lit(" "))), tok("A", lit("a"))]),
        spec("accum-at-eof", [tok("END", lit(";")), frag(plus(cls(["a-z"])))]),
        spec("open-string-eof", [tok("ID", plus(cls(["a-z"]))), frag(lit("'"), ["push", "Lit"])],
             modes=[("Lit", [tok("LITERAL", lit("'"), ["pop"]), frag(cls(["'", 0x0A], neg=True))])]),
        spec("open-comment-eof", [tok("ID", plus(cls(["a-z"]))), frag(cat(lit("/*"), starng(anyc()), lit("*/")), ["discard"])]),
    ]


def ng_whole_rule_cases():
    """rules whose only mandatory part is a non-greedy `+?` repetition (the lexer reference discusses `[0-9]+?`): they do not
    match the empty string, so the start state must not accept; with `*?` in the same place they do (known loop)"""
    D = cls(["0-9"])
    return [
        spec("ngw-digit-plusng", [tok("DIGIT", plusng(D)), tok("WORD", plus(cls(["a-z"]))), frag(plus(cls([" ", 0x0A])), ["discard"])]),
        spec("ngw-id-plusng-tail", [tok("ID", cat(plusng(cls(["a-z"])), star(D))), tok("SEMI", lit(";")), frag(lit(" "), ["discard"])]),
        spec("ngw-alt-plusng", [tok("AB", plusng(alt(lit("a"), lit("b")))), tok("C", lit("c"))]),
        spec("ngw-plusng-opt-tail", [tok("X", cat(plusng(lit("x")), opt(lit("y")))), tok("Z", lit("z"))]),
        spec("ngw-frag-plusng", [frag(plusng(cls([" "])), ["discard"]), tok("A", plus(lit("a")))]),
        spec("ngw-inmode-plusng", [tok("O", lit("("), ["push", "M"]), tok("P0", lit("p"))],
             modes=[("M", [tok("D", plusng(D)), tok("C", lit(")"), ["pop"])])]),
    ]


# ------------------------------------------------------------------ random rule sets

def py_nullable(e, macros):
    k = e["k"]
    if k == "lit":
        return not e["cs"]
    if k in ("cls", "any"):
        return False
    if k == "cat":
        return all(py_nullable(x, macros) for x in e["es"])
    if k == "alt":
        return any(py_nullable(x, macros) for x in e["es"])
    if k in ("opt", "star", "starng"):
        return True
    if k in ("plus", "plusng"):
        return py_nullable(e["es"][0], macros)
    if k == "ref":
        return py_nullable(macros[e["name"]], macros)
    return False


def random_expr(rng, alphabet, depth=0):
    r = rng.random()
    if depth >= 3 or r < 0.35:
        c = rng.random()
        if c < 0.5:
            return lit("".join(rng.choice(alphabet) for _ in range(rng.randint(1, 3))))
        if c < 0.9:
            lo = rng.randrange(len(alphabet))
            hi = rng.randrange(lo, len(alphabet))
            items = [[ord(alphabet[lo]), ord(alphabet[hi])]]
            if rng.random() < 0.3:
                x = rng.choice(alphabet)
                items.append([ord(x), ord(x)])
            if rng.random() < 0.15:
                return cls(items, neg=True)
            return cls(items)
        return anyc()
    if r < 0.6:
        return cat(*[random_expr(rng, alphabet, depth + 1) for _ in range(rng.randint(2, 3))])
    if r < 0.75:
        return alt(*[random_expr(rng, alphabet, depth + 1) for _ in range(rng.randint(2, 3))])
    f = rng.choice([opt, star, plus])
    return f(random_expr(rng, alphabet, depth + 1))


def random_specs(seed, n, nrules=(2, 5), alphabet="abcd"):
    rng = random.Random(seed)
    out = []
    while len(out) < n:
        rules = []
        k = rng.randint(*nrules)
        for i in range(k):
            for _ in range(20):
                e = random_expr(rng, alphabet)
                if not py_nullable(e, {}):
                    break
            else:
                e = lit("a")
            if rng.random() < 0.2:
                rules.append(frag(e, ["discard"]))
            else:
                rules.append(tok("T%d" % i, e))
        if not any(r["kind"] == "token" for r in rules):
            rules.append(tok("TZ", lit("z")))
        out.append(spec("rndl-%d-%d" % (seed, len(out)), rules))
    return out


def range_triple_specs(rng, n, universe="abcdefgh"):
    """rule sets whose alphabet splitting is non-trivial: three (or four) ranges over a small universe with
    partial overlaps, nesting, shared ends, plus a literal starting inside an overlap"""
    out = []
    U = len(universe)
    ranges = [(b, e) for b in range(U) for e in range(b, U)]
    for i in range(n):
        k = 3 if rng.random() < 0.7 else 4
        rs = [rng.choice(ranges) for _ in range(k)]
        rules = []
        for j, (b, e) in enumerate(rs):
            rules.append(tok("R%d" % j, cat(plus(cls([[ord(universe[b]), ord(universe[e])]])), lit(str(j)))))
        # a literal whose first character lies inside the first two ranges' intersection when there is one
        lo, hi = max(rs[0][0], rs[1][0]), min(rs[0][1], rs[1][1])
        c = universe[rng.randint(lo, hi)] if lo <= hi else rng.choice(universe)
        rules.append(tok("KW", lit(c + rng.choice(universe))))
        out.append(spec("rng3-%d" % i, rules))
    return out


def card_nesting_specs():
    """repetition / option applied to a one-alternative group whose first or last element is itself a repetition:
    outer(cat(X, Y)) for outer in ? * + and X, Y in literal / class / class+ / class* / literal?"""
    import itertools
    outers = [("opt", opt), ("star", star), ("plus", plus)]
    elems = [("lit", lambda: lit("a")), ("cls", lambda: cls(["b-c"])), ("clsplus", lambda: plus(cls(["b-c"]))),
             ("clsstar", lambda: star(cls(["b-c"]))), ("litopt", lambda: opt(lit("d")))]
    rules = []
    for (on, of), (xn, xf), (yn, yf) in itertools.product(outers, elems, elems):
        x, y = xf(), yf()
        if py_nullable(cat(x, y), {}) and on in ("star", "plus"):
            continue       # a repetition of something nullable is ambiguous by construction; not the point here
        rules.append(("%s_%s_%s" % (on, xn, yn), of(cat(x, y))))
    out = []
    per = 4
    for i in range(0, len(rules), per):
        chunk = rules[i:i + per]
        rs = []
        for k, (nm, e) in enumerate(chunk):
            # own prefix per rule, common terminator; also the bare group followed by a digit (no prefix)
            rs.append(tok("R%d" % k, cat(lit(chr(ord("A") + k)), e, lit("!"))))
        rs.append(tok("BARE", cat(chunk[0][1], lit("9"))) if not py_nullable(chunk[0][1], {}) else tok("BARE", lit("9")))
        out.append(spec("cardnest-%d-%s" % (i // per, chunk[0][0]), rs))
    return out


def keyword_specs(rng, n):
    """language-sized rule sets: one or two small pattern rules (option / repetition / class: DFA states that stand for
    several low-numbered NFA states) followed by many keyword literals (long chains of single, high-numbered NFA
    states) that share first characters with each other and with the patterns, and a discarded separator"""
    letters = "abceilnst"
    out = []
    for i in range(n):
        rules = []
        heads = [lambda: cat(lit("a"), opt(lit("b"))),
                 lambda: cat(cls(["a-c"]), star(cls(["a-c"]))),
                 lambda: cat(lit("a"), star(lit("b")), opt(lit("c"))),
                 lambda: alt(lit("ab"), cat(lit("a"), plus(cls(["b-c"])))),
                 lambda: cat(opt(lit("b")), lit("a"), opt(lit("b")))]
        rng.shuffle(heads)
        nh = rng.choice([1, 1, 2])
        pats = [tok("P%d" % k, heads[k]()) for k in range(nh)]
        kws, seen = [], set()
        while len(kws) < rng.randint(6, 12):
            w = "".join(rng.choice(letters) for _ in range(rng.randint(2, 6)))
            if w not in seen:
                seen.add(w)
                kws.append(tok("K%d" % len(kws), lit(w)))
        # patterns first (they get the low NFA numbers), last, or in the middle
        place = (0, 1, 0, 2)[i % 4]
        rules = pats + kws if place == 0 else (kws + pats if place == 1 else kws[:3] + pats + kws[3:])
        rules.append(frag(plus(lit(" ")), ["discard"]))
        out.append(spec("kw-%d" % i, rules))
    return out


def rename_modes(sp, names, tag):
    """the same specification with its user modes renamed (declaration order kept)"""
    import copy
    c = copy.deepcopy(sp)
    user = [m["name"] for m in c["modes"] if m["name"]]
    mp = dict(zip(user, names))
    for m in c["modes"]:
        if m["name"]:
            m["name"] = mp[m["name"]]
        for r in m["rules"]:
            for a in r["actions"]:
                if a[0] == "push" and len(a) > 1 and a[1]:
                    a[1] = mp[a[1]]
    c["id"] = sp["id"] + "~" + tag
    return c


def mode_name_variants(specs=None):
    """mode numbers are positions in the byte-sorted list of mode names; variants whose byte order differs from the
    case-folded order, from the declaration order, from the numeric order of a suffix and from the length order, so that a
    table emitted by one order and indexed by another is visible"""
    schemes = {
        "mixedcase": ["Block", "attr", "Cell"],        # bytes: Block Cell attr   folded: attr block cell
        "mixedcase2": ["attr", "Block", "cell"],       # bytes: Block attr cell   declared: attr Block cell
        "numeric": ["M10", "M9", "M1"],                # bytes: M1 M10 M9         numeric: M1 M9 M10
        "length": ["Zz", "Abcdef", "Mmm"],             # bytes: Abcdef Mmm Zz     by length: Zz Mmm Abcdef
        "underscore": ["B_b", "Bb", "B0"],             # bytes: B0 B_b Bb ('_' sorts between upper and lower case)
    }
    out = []
    for sp in (specs if specs is not None else CURATED_MODES):
        n = len([m for m in sp["modes"] if m["name"]])
        if n < 2:
            continue
        for tag, names in schemes.items():
            out.append(rename_modes(sp, names[:n], tag))
            if n == 2:
                out.append(rename_modes(sp, list(reversed(names[:2])), tag + "-swapped"))
    return out
