"""Family L (generated lexer): shared pipeline for C02 C07 C08 C10 C11 C15."""
import json, os, random, itertools, shutil
from vlib import *
import lcase
from lcase import *


def tok_numbers(case):
    return {n: i + 2 for i, n in enumerate(token_names(case))}


def mode_index(case):
    """mode name -> 0-based index as lox assigns it: sorted by name, "$default" first"""
    names = sorted(("$default" if m["name"] == "" else m["name"]) for m in case["modes"])
    return {("" if n == "$default" else n): i for i, n in enumerate(names)}


def tlc_lcase(case):
    tn = tok_numbers(case)
    mi = mode_index(case)
    modes = [None] * len(case["modes"])
    for m in case["modes"]:
        rules = []
        for r in m["rules"]:
            acts = []
            for a in r.get("actions", []):
                if a[0] == "push":
                    acts.append(["push", mi[a[1] or ""] + 1])
                elif a[0] == "pop":
                    acts.append(["pop", 0])
                elif a[0] == "emit":
                    acts.append(["emit", tn[a[1]]])
                else:
                    acts.append(["discard", 0])
            rules.append({"kind": r["kind"], "tok": tn.get(r.get("name"), 0), "expr": r["expr"], "acts": acts})
        modes[mi[m["name"]]] = {"name": m["name"], "rules": rules}
    macros = {mc["name"]: mc["expr"] for mc in case.get("macros", [])} or {"NOMACRO": R("lit", cs=[0])}
    rec = {"id": case["id"], "macros": macros, "modes": modes, "tables": case["gen"].get("tables", []),
           "points": sorted(cut_points(case))}
    return rec


def expr_points(e, macros, acc):
    k = e["k"]
    if k == "lit":
        for c in e["cs"]:
            acc.update((c - 1, c, c + 1))
    elif k == "cls":
        for lo, hi in e["items"] + (e["sitems"] if e["hassub"] else []):
            acc.update((lo - 1, lo, hi, hi + 1))
    elif k == "ref":
        pass
    for x in e["es"]:
        expr_points(x, macros, acc)


def cut_points(case):
    acc = {0, MAXRUNE, 0xD7FF, 0xD800, 0xDFFF, 0xE000, 0xFFFD}
    for mc in case.get("macros", []):
        expr_points(mc["expr"], None, acc)
    for m in case["modes"]:
        for r in m["rules"]:
            expr_points(r["expr"], None, acc)
    for t in case["gen"].get("tables", []):
        n = t[0] if t else 0
        seen = set()
        for q in range(n):
            i0 = t[q]
            if i0 in seen:
                continue
            seen.add(i0)
            g = t[i0 + 2]
            for k in range(g):
                lo, hi = t[i0 + 3 + 3 * k], t[i0 + 4 + 3 * k]
                acc.update((lo - 1, lo, hi, hi + 1))
    return {p for p in acc if 0 <= p <= MAXRUNE}


def alphabet_for(case, extra=(), cap=7):
    """a small set of representative runes: one per distinct region that matters, favouring literal chars"""
    pts = set()
    for m in case["modes"]:
        for r in m["rules"]:
            expr_points(r["expr"], None, pts)
    for mc in case.get("macros", []):
        expr_points(mc["expr"], None, pts)
    pts = sorted(p for p in pts if 0 <= p <= MAXRUNE and not (0xD800 <= p <= 0xDFFF))
    return pts


def prepare(sc, cases, lox=None):
    lox = lox or build_lox(sc)
    mod = new_subject_module(sc, with_simplelexer=True)
    lcase.generate(sc, lox, mod, cases)
    acc = [c for c in cases if c["gen"]["ok"]]
    runner = lcase.build_runner(sc, mod, acc) if acc else None
    return lox, mod, acc, runner


def tlc_lrun(rec, cidx, ng):
    return {"c": cidx + 1, "in": rec["in"], "chars": rec["chars"], "tokens": rec["tokens"],
            "steps": rec.get("steps") or [], "budget": rec["budget"], "panic": rec["panic"], "ng": ng,
            "full": bool(rec.get("steps"))}


def write_ldata(sc, sub, lcases, lruns, jobs=None):
    sd = spec_dir(sc, sub)
    json.dump(lcases, open(os.path.join(sd, "lcases.json"), "w"))
    json.dump(lruns, open(os.path.join(sd, "lruns.json"), "w"))
    json.dump(jobs or [], open(os.path.join(sd, "ljobs.json"), "w"))
    return sd


def _chunks(lruns, chunk):
    for k in range(0, len(lruns), chunk):
        yield k, lruns[k:k + chunk]


def run_lexobs(sc, lcases, lruns, timeout=1800, tag="lobs", chunk=150000):
    total = TlcResult(); total.ok = True
    bad = []
    for k, part in _chunks(lruns, chunk):
        sd = write_ldata(sc, "spec-%s-%d" % (tag, k // chunk), lcases, part)
        r = tlc(sc, "LexObs", cfg="LexObs.cfg", cwd=sd, timeout=timeout)
        tlc_must(r, "LexObs")
        if r.violation or r.distinct != 2 * len(part):
            raise Infra("LexObs evaluated %d states for %d runs (%s)\n%s" % (r.distinct, len(part), r.violation, r.out[-1500:]))
        for l in r.lines:
            if l.get("lo") == "bad":
                l["r"] += k
                bad.append(l)
        total.states += r.states; total.distinct += r.distinct
        shutil.rmtree(sd, ignore_errors=True)
    return bad, total


def run_lextrace(sc, lcases, lruns, timeout=1800, tag="ltrace", chunk=40000):
    total = TlcResult(); total.ok = True
    out = {}
    for k, part in _chunks(lruns, chunk):
        sd = write_ldata(sc, "spec-%s-%d" % (tag, k // chunk), lcases, part)
        r = tlc(sc, "LexerTrace", cfg="LexerTrace.cfg", cwd=sd, timeout=timeout)
        tlc_must(r, "LexerTrace")
        if r.violation:
            raise Infra("LexerTrace: TLC-level violation " + r.violation)
        for l in r.lines:
            if "lt" in l:
                l["r"] += k
                out[l["r"]] = l
        total.states += r.states; total.distinct += r.distinct
        shutil.rmtree(sd, ignore_errors=True)
    return out, total


def run_lexaccount(sc, lcases, lruns, timeout=1800, tag="lacc", chunk=40000):
    total = TlcResult(); total.ok = True
    bad = []
    for k, part in _chunks(lruns, chunk):
        sd = write_ldata(sc, "spec-%s-%d" % (tag, k // chunk), lcases, part)
        r = tlc(sc, "LexAccount", cfg="LexAccount.cfg", cwd=sd, timeout=timeout)
        tlc_must(r, "LexAccount")
        if r.violation or r.distinct != 2 * len(part):
            raise Infra("LexAccount evaluated %d states for %d runs (%s)" % (r.distinct, len(part), r.violation))
        for l in r.lines:
            if l.get("la") == "bad":
                l["r"] += k
                bad.append(l)
        total.states += r.states; total.distinct += r.distinct
        shutil.rmtree(sd, ignore_errors=True)
    return bad, total


def run_product(sc, lcases, jobs, timeout=1800, tag="lprod"):
    sd = write_ldata(sc, "spec-" + tag, lcases, [], jobs)
    r = tlc(sc, "LexProduct", cfg="LexProduct.cfg", cwd=sd, timeout=timeout)
    tlc_must(r, "LexProduct")
    if r.violation:
        raise Infra("LexProduct: TLC-level violation " + r.violation)
    return [l for l in r.lines if "lp" in l], r


def show_input(chars):
    s = ""
    for r, w in chars:
        s += chr(r) if 0x20 <= r < 0x7F else "\\u{%X}" % r
    return s


# ---------------------------------------------------------------------------------------------------------------
# LexConstruct / NFAProduct: the generator's own pipeline (Thompson NFA -> subsets -> partition -> picked actions)

def attach_construction(rec, case, dump):
    """Add, per mode, the NFA and the DFA lox built (harness/cmd/dump) to a TLC lexer case record.
    NFA state numbers are made dense and 1-based; accepting states get the index of their rule in the mode
    (the rank of the source position of their action list: rules are rendered in declaration order)."""
    nfas, dfas = [], []
    for mi, m in enumerate(sorted(dump["modes"], key=lambda m: m["index"])):
        ids = {s["id"]: k + 1 for k, s in enumerate(m["nfastates"])}
        poss = sorted({s["pos"] for s in m["nfastates"] if s["hasact"]})
        nrules = len(rec["modes"][mi]["rules"]) if "modes" in rec else None
        if nrules is not None and len(poss) != nrules:
            raise Infra("%s mode %d: %d action positions in the NFA for %d rules" % (case["id"], mi, len(poss), nrules))
        rank = {p: k + 1 for k, p in enumerate(poss)}
        states = [{"accept": s["accept"], "ng": s["ng"], "hasact": s["hasact"], "pos": s["pos"],
                   "rule": rank.get(s["pos"], 0), "acts": s["acts"], "actmodes": s["actmodes"],
                   "eps": [ids[t] for t in s["eps"]], "edges": [[lo, hi, ids[t]] for lo, hi, t in s["edges"]]}
                  for s in m["nfastates"]]
        nfas.append({"start": ids[max(ids)], "states": states})
        dfas.append([{"accept": s["accept"], "ng": s["ng"], "pos": s["pos"], "acts": s["actions"], "actmodes": s["actmodes"],
                      "trans": [[lo, hi, t + 1] for lo, hi, t in s["trans"]], "nfa": sorted({ids[t] for t in s["nfa"]})}
                     for s in m["states"]])
    rec["nfa"], rec["dfa"] = nfas, dfas
    return rec


def run_construct(sc, lcases, jobs, timeout=1800, tag="lcons", mc=False):
    """LexConstruct.tla: Det (artefact validation, one verdict per job) or all orders (Confluence)."""
    sd = write_ldata(sc, "spec-" + tag, lcases, [], jobs)
    r = tlc(sc, "LexConstruct", cfg="LexConstructMC.cfg" if mc else "LexConstruct.cfg", cwd=sd, timeout=timeout)
    tlc_must(r, "LexConstruct")
    if r.violation:
        raise Infra("LexConstruct%s: TLC-level violation %s\n%s" % ("MC" if mc else "", r.violation, r.out[-3000:]))
    shutil.rmtree(sd, ignore_errors=True)
    return [l for l in r.lines if l.get("lc") == "v"], r


def run_nfaproduct(sc, lcases, jobs, timeout=1800, tag="nprod"):
    sd = write_ldata(sc, "spec-" + tag, lcases, [], jobs)
    r = tlc(sc, "NFAProduct", cfg="NFAProduct.cfg", cwd=sd, timeout=timeout)
    tlc_must(r, "NFAProduct")
    if r.violation:
        raise Infra("NFAProduct: TLC-level violation " + r.violation)
    shutil.rmtree(sd, ignore_errors=True)
    return [l for l in r.lines if "np" in l], r
