"""Checks of family L: C02 C07 C08 C10 C11 C15."""
import json, os, random, itertools
from vlib import *
from lfamily import *
import lcase, lgrams


def lreplay(case, rec=None, extra=None):
    d = {"id": case["id"], "lox": lcase.render_lox(case), "case_json": {k: v for k, v in case.items() if k != "gen"}}
    if rec is not None:
        d["input_runes"] = rec["in"]
        d["input_text"] = show_input(rec["chars"])
        d["tokens_observed"] = rec["tokens"]
    if extra:
        d.update(extra)
    return d


def small_alphabet(case, rng, cap):
    pts = alphabet_for(case)
    # literal / class boundary characters first, then neighbours
    must = set()
    for m in case["modes"]:
        for r in m["rules"]:
            acc = set()
            expr_points(r["expr"], None, acc)
            must |= acc
    for mc in case.get("macros", []):
        acc = set()
        expr_points(mc["expr"], None, acc)
        must |= acc
    pts = sorted(p for p in must if 0 <= p <= MAXRUNE and not (0xD800 <= p <= 0xDFFF))
    if len(pts) > cap:
        # keep characters that occur literally in rules, sample the rest
        lits = set()

        def walk(e):
            if e["k"] == "lit":
                lits.update(e["cs"])
            if e["k"] == "cls":
                for lo, hi in e["items"]:
                    lits.add(lo)
            for x in e["es"]:
                walk(x)
        for m in case["modes"]:
            for r in m["rules"]:
                walk(r["expr"])
        for mc in case.get("macros", []):
            walk(mc["expr"])
        core = sorted(lits)[:cap]
        rest = [p for p in pts if p not in core]
        rng.shuffle(rest)
        pts = sorted(core + rest[:max(0, cap - len(core))])
    if not pts:
        pts = [0x61, 0x62, 0x0A]      # rules made of '.' / negated classes only: any characters will do
    return pts


def long_inputs(case, rng, n, alphabet):
    out = []
    exotic = [0xE9, 0x4E16, 0x1F600, 0xFFFD, 0x10FFFF, 0x80, 0x7FF, 0x800, 0xFFFF, 0x10000, -0x80, -0xFF, -0xC3, 0x0A, 0x20, 0, 1, 0x7F]
    # U+0000 is a character like any other: alone, at a token boundary, inside a token, before a line end
    for a in alphabet[:3]:
        out += [[0], [a, 0], [0, a], [a, 0, a], [a, a, 0, 0x0A, a], [a, 0x0A, 0, a]]
    for _ in range(n):
        L = rng.randint(5, 40)
        w = []
        for _ in range(L):
            x = rng.random()
            # several lines per input: the driver resynchronises at the next line after a lexical error
            w.append(0x0A if x < 0.07 else (rng.choice(alphabet) if x < 0.87 else rng.choice(exotic)))
        out.append(w)
    return out


def in_class(e, c):
    if e["k"] == "any":
        return 0 <= c <= MAXRUNE
    simple = lambda neg, items: any(lo <= c <= hi for lo, hi in items) != neg
    return simple(e["neg"], e["items"]) and not (e["hassub"] and simple(e["sneg"], e["sitems"]))


def derive(e, macros, rng, pool, depth=0):
    """a random string of the expression's language (None when a class has no member in the candidate pool)"""
    k = e["k"]
    if k == "lit":
        return list(e["cs"])
    if k in ("cls", "any"):
        cands = [c for c in pool if in_class(e, c)]
        return [rng.choice(cands)] if cands else None
    if k == "ref":
        return derive(macros[e["name"]], macros, rng, pool, depth + 1)
    if k == "alt":
        return derive(rng.choice(e["es"]), macros, rng, pool, depth + 1)
    if k == "cat":
        out = []
        for x in e["es"]:
            s = derive(x, macros, rng, pool, depth + 1)
            if s is None:
                return None
            out += s
        return out
    lo = 1 if k in ("plus", "plusng") else 0
    n = 1 if (k == "opt" and rng.random() < 0.6) else (0 if k == "opt" else rng.randint(lo, 3 if depth < 3 else 1))
    out = []
    for _ in range(n):
        s = derive(e["es"][0], macros, rng, pool, depth + 1)
        if s is None:
            return None if lo else []
        out += s
    return out


def rule_inputs(case, rng, per_rule=3):
    """inputs built from the rules themselves: for every rule of every mode reachable through @push_mode, a text that
    enters the mode, a match of the rule, and then another match / a terminator-like tail / junk.  (All strings over a
    five-letter alphabet up to length four do not reach `<!--a--` or the second `*/` of a comment.)"""
    macros = {mc["name"]: mc["expr"] for mc in case.get("macros", [])}
    pool = set()
    for m in case["modes"]:
        for r in m["rules"]:
            expr_points(r["expr"], None, pool)
    for mc in case.get("macros", []):
        expr_points(mc["expr"], None, pool)
    pool = sorted(c for c in pool if 0 <= c <= MAXRUNE and not (0xD800 <= c <= 0xDFFF))
    byname = {m["name"]: m for m in case["modes"]}
    entry = {"": []}
    todo = [""]
    while todo:
        mn = todo.pop(0)
        for r in byname[mn]["rules"]:
            for a in r.get("actions", []):
                if a[0] == "push" and (a[1] or "") in byname and (a[1] or "") not in entry:
                    entry[a[1] or ""] = entry[mn] + [r]
                    todo.append(a[1] or "")
    out = []
    for mn, path in entry.items():
        pre = []
        ok = True
        for r in path:
            s = derive(r["expr"], macros, rng, pool)
            if s is None:
                ok = False
                break
            pre += s
        if not ok:
            continue
        for r in byname[mn]["rules"]:
            for _ in range(per_rule):
                s = derive(r["expr"], macros, rng, pool)
                if not s:
                    continue
                tail = rng.choice([[], s[-2:], s[-1:] * 2, derive(r["expr"], macros, rng, pool) or [], [rng.choice(pool)] * 2])
                tail2 = rng.choice([[], s[-2:], [rng.choice(pool)]])
                out.append((pre + s + tail + tail2)[:60])
    return out


def lex_explore(rep, sc, cases, rng, cap, fullcap, nlong, ng="off", alpha_cap=5, trace_cap=15000):
    cases = replay_filter(cases)
    lox, mod, acc, runner = prepare(sc, cases)
    for c in cases:
        if not c["gen"]["ok"]:
            rep.note("lox rejected lexer case %s: %s" % (c["id"], c["gen"]["stderr"][-200:]))
    if not acc:
        raise Infra("no lexer specification was accepted")
    jobs = []
    from pfamily import maxlen_for
    for c in acc:
        al = small_alphabet(c, rng, alpha_cap)
        k = maxlen_for(len(al), cap)
        jobs.append({"case": c["gen"]["pkg"], "alphabet": al, "maxlen": k, "fulllen": min(k, maxlen_for(len(al), fullcap)),
                     "extra": long_inputs(c, rng, nlong, al) + rule_inputs(c, rng, 3 if nlong <= 20 else 8)})
    recs = lcase.run_jobs(sc, runner, jobs)
    idx = {c["gen"]["pkg"]: i for i, c in enumerate(acc)}
    lcases = [tlc_lcase(c) for c in acc]
    lruns = [tlc_lrun(x, idx[x["case"]], ng(acc[idx[x["case"]]]) if callable(ng) else ng) for x in recs]
    return {"acc": acc, "recs": recs, "lcases": lcases, "lruns": lruns, "idx": idx, "runner": runner, "cases": cases}


def with_steps(sc, X, run):
    """the same input again with the PushRune log (for classification of a failing run that was recorded without it)"""
    if run["full"]:
        return run
    c = X["acc"][run["c"] - 1]
    recs = lcase.run_jobs(sc, X["runner"], [{"case": c["gen"]["pkg"], "alphabet": [], "maxlen": -1, "fulllen": 0, "extra": [run["in"]]}], shards=1)
    return tlc_lrun(recs[0], run["c"] - 1, run["ng"])


def state_before_eof(run):
    """recorded state of the machine when EOF / the last result was returned: the state after the last consume step"""
    st = None
    for s in run["steps"]:
        if s[0] == -2:
            st = 0
        elif s[1] == 0:
            st = s[2]
        elif s[1] in (1, 2, 3):
            st = 0
    return st


def stopped_in_ng_state(sc, X, run, tok):
    """did the real lexer produce token `tok` = [ty, start, end] from a table state that carries the non-greedy flag?"""
    run = with_steps(sc, X, run)
    c = X["acc"][run["c"] - 1]
    off, st, mode = 0, 0, 0
    k = 0
    chars = run["chars"]
    ci = 0
    for s in run["steps"]:
        if s[0] == -2:
            continue
        if s[1] == 0:
            off += chars[ci][1] if ci < len(chars) else 0
            ci += 1
            st, mode = s[2], s[4]
        elif s[1] == 1 and off == tok[2]:
            mt = c["gen"]["tables"][mode if mode >= 0 else 0]
            i0 = mt[st]
            return mt[i0 + 1] % 2 == 1
    return False


def lex_cov(rep, X, rule, nontrivial, tlcs, tv):
    rep.coverage.update({
        "states": sum(r.distinct for r in tlcs), "transitions": sum(r.states for r in tlcs),
        "traces_validated_against_impl": len([1 for v in tv.values() if v.get("lt") == "ok"]),
        "evaluations": len(X["lruns"]), "distinct_nontrivial": nontrivial, "rule": rule,
        "specs_generated": len(X["cases"]), "specs_accepted": len(X["acc"]),
        "samples": [{"lox": lcase.render_lox(X["acc"][0]), "input": X["lruns"][min(7, len(X["lruns"]) - 1)]["in"],
                     "tokens": X["lruns"][min(7, len(X["lruns"]) - 1)]["tokens"]},
                    {"lox": lcase.render_lox(X["acc"][-1])}],
    })
    rep.assumptions = ["TLC/SANY, CommunityModules Json", "Go toolchain, unicode/utf8",
                       "simplelexer v0.5.0 from the module cache is the reference driver",
                       "renderer (lib/lcase.py) and table scraper", "inputs: all strings over a representative alphabet up to a bound + random long inputs with multi-byte runes and invalid UTF-8"]


def product_jobs(X):
    jobs = []
    for ci, c in enumerate(X["acc"]):
        if len(c["gen"].get("tables", [])) != len(c["modes"]):
            continue        # reported by table_count_failures
        for mi in range(len(c["modes"])):
            jobs.append({"c": ci + 1, "m": mi + 1})
    return jobs


def table_count_failures(rep, X, prop):
    """one emitted table per mode is what the row format and the driver assume"""
    for c in X["acc"]:
        nt, nm = len(c["gen"].get("tables", [])), len(c["modes"])
        if nt != nm:
            rep.failure("%s.mode-table-count:%s" % (prop, c["id"]), "spec %s: %d mode tables emitted for %d modes" % (c["id"], nt, nm), lreplay(c))


# =========================================================================== C02

def c02(tier):
    rep = Report("C02", tier)
    sc = scratch("c02")
    rng = random.Random(seed())
    quick = tier == "quick"
    cases = list(lgrams.CURATED_GREEDY) + lgrams.random_specs(seed() + 2, 30 if quick else 200)
    cases += lgrams.range_triple_specs(random.Random(seed() + 22), 40 if quick else 250)
    cn = lgrams.card_nesting_specs()
    cases += cn if not quick else cn[seed() % 2::2]
    cases += lgrams.keyword_specs(random.Random(seed() + 24), 36 if quick else 150)
    cases = json.loads(json.dumps(cases))
    X = lex_explore(rep, sc, cases, rng, 500 if quick else 2500, 150 if quick else 400, 20 if quick else 120)
    acc, lruns = X["acc"], X["lruns"]
    bad, ro = run_lexobs(sc, X["lcases"], lruns)
    for b in bad:
        run, c = lruns[b["r"]], acc[b["c"]]
        got, want = b["got"], b["want"]
        k = 0
        while k < len(got) and k < len(want) and got[k] == want[k]:
            k += 1
        nbytes = sum(w for _, w in run["chars"])
        if k < len(got) and k < len(want) and got[k][0] == 0 and want[k][0] == 1 and got[k][1] == want[k][1] and got[k][1] < nbytes \
                and state_before_eof(with_steps(sc, X, run)) == 0:
            # plain EOF although characters of an unfinished token were consumed, and the machine *is* in state 0:
            # the start state was merged with a mid-token state
            rep.failure("c02.eof-in-start-state-instead-of-error", "spec %s input %r: EOF at offset %d of %d where the rules define an error" % (
                c["id"], show_input(run["chars"]), got[k][1], nbytes), lreplay(c, run, {"want": want}))
            continue
        rep.failure("c02.token-stream-differs:" + c["id"],
                    "spec %s input %r: tokens %s, rules define %s" % (c["id"], show_input(run["chars"]), b["got"], b["want"]),
                    lreplay(c, run, {"want": b["want"]}))
    # all strings: product of the emitted table with the reference automaton
    table_count_failures(rep, X, "c02")
    pbad, rp = run_product(sc, X["lcases"], product_jobs(X))
    for b in pbad:
        j = product_jobs(X)[b["j"]]
        c = acc[j["c"] - 1]
        rep.failure("c02.table-differs-from-rules:" + c["id"],
                    "spec %s mode %d: product state with table state %d: %s" % (c["id"], j["m"] - 1, b["q"], json.dumps(b)[:300]),
                    lreplay(c, None, {"product": b}))
    full = [r for r in lruns if r["full"]][:15000]
    tv, rt = run_lextrace(sc, X["lcases"], full)
    drift = [i for i in range(len(full)) if tv.get(i, {}).get("lt") not in ("ok",)]
    if drift:
        rep.note("DRIFT: %d of %d recorded lexer runs are not behaviours of LexerRT (e.g. %s on %s: %s)" % (
            len(drift), len(full), acc[full[drift[0]]["c"] - 1]["id"], full[drift[0]]["in"], json.dumps(tv.get(drift[0], {}))[:400]))
    ntok = {}
    for r in lruns:
        if len(r["tokens"]) >= 3:
            ntok[r["c"]] = ntok.get(r["c"], 0) + 1
    lex_cov(rep, X, "rule sets: curated shapes (keyword/identifier in both orders, prefix chains, a viable prefix outrunning "
            "every match, adjacent classes, multi-byte, U+FFFD, row-key collisions, negation/difference/dot, macros) + seeded "
            "random greedy rule sets; non-trivial = spec with >= 3 inputs producing >= 2 tokens before EOF",
            len([1 for v in ntok.values() if v >= 3]), [ro, rp, rt], tv)
    rep.coverage["product_states"] = rp.distinct
    rep.coverage["trace_drift"] = len(drift)
    return rep.finish("model_checking")


def trace_by_run(full, tv):
    return {id(r): tv.get(i, {}) for i, r in enumerate(full)}


# =========================================================================== C07

def c07(tier):
    rep = Report("C07", tier)
    sc = scratch("c07")
    rng = random.Random(seed())
    quick = tier == "quick"
    perms = lgrams.all_mode_action_cases()
    if quick:
        rng.shuffle(perms)
        perms = perms[:40]
    names = lgrams.mode_name_variants()
    if quick:
        names = [c for c in names if c["id"].split("~")[0] in ("nested", "pop-then-push", "unused-mode-sorts-first", "unused-mode-in-the-middle")
                 and c["id"].split("~")[1] in ("mixedcase", "mixedcase2", "numeric", "underscore", "mixedcase-swapped")]
    cases = json.loads(json.dumps(list(lgrams.CURATED_MODES) + perms + names))
    X = lex_explore(rep, sc, cases, rng, 1500 if quick else 3000, 1500 if quick else 3000, 10 if quick else 60, alpha_cap=6)
    acc, lruns = X["acc"], X["lruns"]
    bad, ro = run_lexobs(sc, X["lcases"], lruns)
    full = [r for r in lruns if r["full"]]
    tv, rt = run_lextrace(sc, X["lcases"], full)
    tvr = trace_by_run(full, tv)
    drift = [r for r in full if tvr[id(r)].get("lt") not in ("ok",)]
    if drift:
        rep.note("DRIFT: %d of %d lexer runs are not behaviours of LexerRT (e.g. %s on %s: %s)" % (
            len(drift), len(full), acc[drift[0]["c"] - 1]["id"], drift[0]["in"], json.dumps(tvr[id(drift[0])])[:300]))
    for b in bad:
        run, c = lruns[b["r"]], acc[b["c"]]
        gh = tvr.get(id(run), {}).get("gh") or {}
        if gh.get("skipped"):
            sig = "c07.actions-after-emit-or-discard-skipped"
        elif gh.get("stale"):
            sig = "c07.second-mode-action-uses-stale-mode"
        else:
            sig = "c07.token-stream-differs:" + c["id"]
        rep.failure(sig, "spec %s input %r: tokens %s, documented mode/action semantics give %s" % (
            c["id"], show_input(run["chars"]), b["got"], b["want"]), lreplay(c, run, {"want": b["want"]}))
    nmode = {}
    for r in full:
        if any(s[3] > 0 for s in r["steps"]):
            nmode[r["c"]] = nmode.get(r["c"], 0) + 1
    lex_cov(rep, X, "mode graphs: nested, recursive, re-entering the default mode, the documented examples; every subset and "
            "permutation (<= 3) of @push_mode(A) / @push_mode() / @pop_mode / @emit / @discard on a token and on a fragment; "
            "each mode lexes the probe character to a different token; inputs: all strings over the probe alphabet up to the bound; "
            "non-trivial = spec with >= 3 inputs that reached a non-empty mode stack",
            len([1 for v in nmode.values() if v >= 3]), [ro, rt], tv)
    rep.coverage["trace_drift"] = len(drift)
    return rep.finish("model_checking")


# =========================================================================== C08

def c08(tier):
    rep = Report("C08", tier)
    sc = scratch("c08")
    rng = random.Random(seed())
    quick = tier == "quick"
    ng = lgrams.ng_cases()
    if quick:
        head, tail = ng[:-13], ng[-13:]
        rng.shuffle(head)
        ng = head[:36] + tail
    cases = json.loads(json.dumps(ng))

    def mode_of(c):
        # the whole stream is determined when the non-greedy rule has a non-empty prefix that no other rule shares
        return "stream" if ((c["id"].startswith("ng-cmt-") or c["id"].startswith("ng-lt-")) and "inmode" not in c["id"]) else "pertoken"
    X = lex_explore(rep, sc, cases, rng, 2500 if quick else 6000, 300 if quick else 1000, 15 if quick else 80, ng=mode_of, alpha_cap=5)
    acc, lruns = X["acc"], X["lruns"]
    bad, ro = run_lexobs(sc, X["lcases"], lruns)
    full = [r for r in lruns if r["full"]]
    tv, rt = run_lextrace(sc, X["lcases"], full)
    tvr = trace_by_run(full, tv)
    drift = [r for r in full if tvr[id(r)].get("lt") not in ("ok",)]
    if drift:
        rep.note("DRIFT: %d of %d lexer runs are not behaviours of LexerRT (e.g. %s on %s)" % (
            len(drift), len(full), acc[drift[0]["c"] - 1]["id"], drift[0]["in"]))
    for b in bad:
        run, c = lruns[b["r"]], acc[b["c"]]
        got, want = b["got"], b["want"]
        rules = [r for m in c["modes"] for r in m["rules"]]
        ngtoks = set()
        tn = tok_numbers(c)
        for r in rules:
            if r["kind"] == "token" and "ng" in json.dumps(r["expr"]):
                ngtoks.add(tn[r["name"]])
        if run["ng"] == "pertoken":
            g = got[b["badtok"] - 1]
            if g[0] in ngtoks:
                sig = "c08.ng-token-not-shortest:" + c["id"]
            elif stopped_in_ng_state(sc, X, run, g):
                sig = "c08.ng-mark-truncates-greedy-rule"
            else:
                sig = "c08.greedy-token-too-short:" + c["id"]
            desc = "spec %s input %r: token %s is not the %s match of its rule (tokens %s)" % (
                c["id"], show_input(run["chars"]), g, "shortest" if g[0] in ngtoks else "longest", got)
        else:
            k = 0
            while k < len(got) and k < len(want) and got[k] == want[k]:
                k += 1
            g = got[k] if k < len(got) else None
            w = want[k] if k < len(want) else None
            if g and w and g[1] == w[1] and g[0] in ngtoks and w[0] == g[0] and g[2] > w[2]:
                sig = "c08.ng-token-too-long:" + c["id"]
            elif g and w and g[1] == w[1] and g[0] > 1 and g[0] not in ngtoks and g[2] < w[2] and stopped_in_ng_state(sc, X, run, g):
                sig = "c08.ng-mark-truncates-greedy-rule"
            else:
                sig = "c08.token-stream-differs:" + c["id"]
            desc = "spec %s input %r: tokens %s, shortest-match semantics give %s" % (c["id"], show_input(run["chars"]), got, want)
        rep.failure(sig, desc, lreplay(c, run, {"want": want}))
    nng = {}
    for r in lruns:
        if any(t[0] == 2 for t in r["tokens"]):
            nng[r["c"]] = nng.get(r["c"], 0) + 1
    lex_cov(rep, X, "rules prefix x body x terminator with *? and +? (prefixes none, '/*', '<'; bodies '.', a class containing the "
            "terminator's characters, alternatives; terminators '*/', 'aa', 'aab' (self-overlapping), newline, 'b'), greedy "
            "neighbours disjoint from and overlapping the prefix; inputs: all strings over the rule's characters up to the bound; "
            "stream equality where the prefix is non-empty and unshared, per-token shortest/longest-match otherwise; "
            "non-trivial = spec with >= 3 inputs on which the non-greedy rule produced a token",
            len([1 for v in nng.values() if v >= 3]), [ro, rt], tv)
    rep.coverage["trace_drift"] = len(drift)
    return rep.finish("model_checking")


# =========================================================================== C11

def partition_ok(segs, nbytes):
    pos = 0
    for kind, s, e in segs:
        if kind == "lost":
            return False, "text [%d,%d) dropped at EOF" % (s, e)
        if s != pos or e < s:
            return False, "segment %s [%d,%d) does not continue at %d" % (kind, s, e, pos)
        pos = e
    if pos != nbytes:
        return False, "segments end at %d, input has %d bytes" % (pos, nbytes)
    return True, ""


def c11(tier):
    rep = Report("C11", tier)
    sc = scratch("c11")
    rng = random.Random(seed())
    quick = tier == "quick"
    cases = list(lgrams.nullable_cases()) + list(lgrams.CURATED_GREEDY) + list(lgrams.CURATED_MODES)
    cases += lgrams.ng_cases()[-4:] + lgrams.ng_whole_rule_cases() + lgrams.random_specs(seed() + 11, 15 if quick else 200)
    cases = json.loads(json.dumps(cases))
    X = lex_explore(rep, sc, cases, rng, 400 if quick else 1500, 400 if quick else 1500, 60 if quick else 300, alpha_cap=5)
    acc, lruns = X["acc"], X["lruns"]
    full = [r for r in lruns if r["full"]]
    tv, rt = run_lextrace(sc, X["lcases"], full, timeout=2400)
    tvr = trace_by_run(full, tv)
    ndrift = len([r for r in full if not r["budget"] and not r["panic"] and tvr[id(r)].get("lt") != "ok"])
    if ndrift:
        rep.note("DRIFT: %d of %d runs are not LexerRT behaviours (the accounting below does not depend on the model)" % (ndrift, len(full)))
    judged = []
    for r in full:
        c = acc[r["c"] - 1]
        if r["panic"]:
            rep.failure("c11.panic:" + c["id"], "lexing panicked on %r: %s" % (show_input(r["chars"]), r["panic"]), lreplay(c, r))
            continue
        if r["budget"]:
            # does not reach EOF within 4*len+16 reads / 8*len+64 PushRune calls
            toks = r["tokens"]
            empties = [t for t in toks if t[1] == t[2] and t[0] > 1]
            # the recorded mechanisms concern rules that match the empty string *by their definition*; a rule the reference
            # manual defines as non-empty (`[0-9]+?`) that loops like this is another defect
            macros = {m["name"]: m["expr"] for m in c.get("macros", [])}
            nullable_tok = any(ru["kind"] == "token" and lgrams.py_nullable(ru["expr"], macros) for m in c["modes"] for ru in m["rules"])
            nullable_frag = any(ru["kind"] == "frag" and lgrams.py_nullable(ru["expr"], macros) for m in c["modes"] for ru in m["rules"])
            if empties and len(empties) >= len(toks) - len(r["chars"]) - 1 and (nullable_tok or nullable_frag):
                sig = "c11.nullable-rule-empty-token-loop"
            elif r["steps"] and len([s for s in r["steps"][-20:] if s[1] == 3]) >= 18 and nullable_frag:
                sig = "c11.nullable-fragment-try-again-loop"
            else:
                sig = "c11.no-eof:" + c["id"]
            rep.failure(sig, "spec %s input %r: EOF not reached within the budget" % (c["id"], show_input(r["chars"])), lreplay(c, r))
            continue
        judged.append(r)
    # the accounting itself: from the observed PushRune results only (LexAccount.tla), whether or not the run conforms to the model
    abad, ra = run_lexaccount(sc, X["lcases"], judged)
    for b in abad:
        r = judged[b["r"]]
        c = acc[r["c"] - 1]
        if b["end"] == "eof" and b["lost"]:
            k = len(r["steps"]) - 1
            accum = False
            while k >= 0 and r["steps"][k][1] in (0, 3, 4):
                accum = accum or r["steps"][k][1] == 3
                k -= 1
            conforms = tvr.get(id(r), {}).get("lt") == "ok"     # the known mechanisms are behaviours of the model
            if accum and conforms:
                sig = "c11.eof-drops-accumulated-text"
            elif state_before_eof(r) == 0 and conforms:
                sig = "c11.eof-in-start-state-drops-consumed-text"
            else:
                sig = "c11.eof-with-unfinished-token:" + c["id"]
            why = "text %s dropped at EOF (machine state %s)" % ([s for s in b["segs"] if s[0] == "lost"], state_before_eof(r))
        elif b.get("badsegs"):
            sig = "c11.segment-text-does-not-match-its-rule:" + c["id"]
            why = "segment(s) %s of %s consist of text no rule with that effect can match" % (b["badsegs"], b["segs"])
        else:
            sig = "c11.unaccounted-text:" + c["id"]
            why = "segments %s do not partition the %d input bytes (%s)" % (b["segs"], b["nbytes"], b["end"])
        rep.failure(sig, "spec %s input %r: %s" % (c["id"], show_input(r["chars"]), why), lreplay(c, r, {"segments": b["segs"]}))
    nn = {}
    for r in full:
        if len(r["chars"]) >= 3:
            nn[r["c"]] = nn.get(r["c"], 0) + 1
    lex_cov(rep, X, "rule sets incl. rules that match the empty string, accumulating fragments, modes, inputs ending in the middle "
            "of a construct; the accounting (token / discarded / error stretch segments are consecutive and cover the input) is "
            "evaluated on the ghost segment list of the trace-validated driver model; non-trivial = spec with >= 3 inputs of >= 3 characters",
            len([1 for v in nn.values() if v >= 3]), [rt, ra], tv)
    rep.coverage["trace_drift"] = ndrift
    rep.coverage["runs_accounted"] = len(judged)
    return rep.finish("model_checking")
