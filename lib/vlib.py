"""Shared plumbing for the /verif checks: scratch dirs, go builds, TLC runs,
verdict parsing, known findings, evidence files.

Every check: builds lox and the harness from /repo's *current working tree*,
works in a fresh scratch directory outside /repo and /verif, and removes it.
Exit codes: 0 held / 1 violation / 2 infrastructure problem (never a verdict).
"""
import json, os, re, shutil, subprocess, sys, tempfile, time, random, atexit, signal

VERIF = os.path.dirname(os.path.dirname(os.path.abspath(__file__)))
REPO = os.environ.get("VERIF_REPO", "/repo")
# evidence of the registered checks lives in /verif/evidence; runs against a *changed* copy of the repository (VERIF_REPO, the
# seeded-change and mutation campaigns) must not overwrite it: they set VERIF_EVIDENCE_DIR
EVDIR = os.environ.get("VERIF_EVIDENCE_DIR") or os.path.join(VERIF, "evidence")
SPEC = os.path.join(VERIF, "spec")
HARNESS = os.path.join(VERIF, "harness")
NCPU = min(16, os.cpu_count() or 4)

GOENV = dict(os.environ)
GOENV.update({
    "GOFLAGS": "-mod=mod", "GOPROXY": "off", "GOSUMDB": "off",
    "GOTOOLCHAIN": "local", "CGO_ENABLED": "0",
})
# race builds need cgo
GOENV_RACE = dict(GOENV); GOENV_RACE["CGO_ENABLED"] = "1"


class Infra(Exception):
    """Infrastructure failure: exit 2, never a verdict."""


def seed():
    try:
        return int(os.environ.get("VERIF_SEED", "1"))
    except ValueError:
        return 1


def log(*a):
    print(*a, file=sys.stderr, flush=True)


_scratch = []


def scratch(prefix="xv"):
    base = os.environ.get("VERIF_SCRATCH", tempfile.gettempdir())
    d = tempfile.mkdtemp(prefix=prefix + "-", dir=base)
    _scratch.append(d)
    return d


def _cleanup():
    if os.environ.get("VERIF_KEEP"):
        for d in _scratch:
            log("kept scratch", d)
        return
    for d in _scratch:
        shutil.rmtree(d, ignore_errors=True)


atexit.register(_cleanup)


def _sigterm(signum, frame):
    sys.exit(2)


signal.signal(signal.SIGTERM, _sigterm)


def run(cmd, cwd=None, env=None, timeout=None, check=True, stdin=None, quiet=False):
    t0 = time.time()
    try:
        p = subprocess.run(cmd, cwd=cwd, env=env or GOENV, timeout=timeout,
                           stdout=subprocess.PIPE, stderr=subprocess.PIPE, input=stdin)
    except subprocess.TimeoutExpired as e:
        raise Infra("timeout after %ss: %s" % (timeout, " ".join(cmd[:6])))
    if check and p.returncode != 0:
        raise Infra("command failed (%d): %s\n%s\n%s" % (
            p.returncode, " ".join(cmd[:8]), p.stdout.decode(errors="replace")[-3000:],
            p.stderr.decode(errors="replace")[-3000:]))
    return p


# ---------------------------------------------------------------- building

def build_lox(sc):
    """Build the lox CLI from /repo's current working tree (hooks tag on)."""
    out = os.path.join(sc, "bin", "lox")
    os.makedirs(os.path.dirname(out), exist_ok=True)
    p = run(["go", "build", "-tags", "verif", "-o", out, "./cmd/lox"], cwd=REPO, check=False)
    if p.returncode != 0:
        raise Infra("lox does not build from %s:\n%s" % (REPO, p.stderr.decode()[-3000:]))
    return out


def harness_module(sc):
    """Copy the harness Go module next to the scratch so that it can import
    lox's internal packages from the working tree (module path has the
    github.com/dcaiafa/lox/ prefix; replace => REPO)."""
    dst = os.path.join(sc, "harness")
    if os.path.exists(dst):
        return dst
    shutil.copytree(HARNESS, dst)
    with open(os.path.join(dst, "go.mod"), "w") as f:
        f.write(open(os.path.join(REPO, "go.mod")).read()
                .replace("module github.com/dcaiafa/lox", "module github.com/dcaiafa/lox/xverif", 1)
                + "\nrequire github.com/dcaiafa/lox v0.0.0\nreplace github.com/dcaiafa/lox => %s\n" % REPO)
    shutil.copy(os.path.join(REPO, "go.sum"), os.path.join(dst, "go.sum"))
    return dst


def build_tool(sc, name, tags="verif", race=False):
    """Build harness/cmd/<name> against the working tree."""
    mod = harness_module(sc)
    out = os.path.join(sc, "bin", name)
    os.makedirs(os.path.dirname(out), exist_ok=True)
    cmd = ["go", "build", "-tags", tags, "-o", out]
    if race:
        cmd.insert(2, "-race")
    cmd.append("./cmd/" + name)
    p = run(cmd, cwd=mod, check=False, env=GOENV_RACE if race else GOENV)
    if p.returncode != 0:
        raise Infra("harness tool %s does not build:\n%s" % (name, p.stderr.decode()[-4000:]))
    return out


def new_subject_module(sc, name="xv", with_simplelexer=False):
    """A scratch Go module that will hold generated subject packages."""
    mod = os.path.join(sc, name)
    os.makedirs(mod, exist_ok=True)
    shutil.copytree(os.path.join(HARNESS, "hk"), os.path.join(mod, "hk"), dirs_exist_ok=True)
    gm = "module xv\n\ngo 1.23\n"
    if with_simplelexer:
        gm += "\nrequire github.com/dcaiafa/loxlex v0.5.0\n"
        sums = [l for l in open(os.path.join(REPO, "go.sum")) if "dcaiafa/loxlex" in l]
        with open(os.path.join(mod, "go.sum"), "w") as f:
            f.write("".join(sums))
    with open(os.path.join(mod, "go.mod"), "w") as f:
        f.write(gm)
    return mod


# ---------------------------------------------------------------- TLC

TLC_JAR = "/opt/veriftools/tla/tla2tools.jar:/opt/veriftools/tla/CommunityModules-deps.jar"


def spec_dir(sc, sub="spec"):
    d = os.path.join(sc, sub)
    if not os.path.exists(d):
        shutil.copytree(SPEC, d)
    return d


class TlcResult:
    def __init__(self):
        self.out = ""
        self.lines = []       # decoded JSON verdict records printed with PrintT(ToJson(..))
        self.states = 0
        self.distinct = 0
        self.ok = False
        self.violation = None  # text of an invariant/property violation reported by TLC itself
        self.error = None
        self.wall = 0.0
        self.coverage = {}


_JSONLINE = re.compile(r'^"?(\{.*\})"?$')


def tlc(sc, module, cfg=None, workers=None, timeout=600, extra=None, heap="8g",
        cwd=None, simulate=None, deadlock=False, stack="512m", coverage=False):
    """Run TLC on spec/<module>.tla in the scratch copy of the spec directory."""
    sd = cwd or spec_dir(sc)
    meta = tempfile.mkdtemp(prefix="meta-", dir=sc)
    cmd = ["java", "-XX:+UseParallelGC", "-Xmx" + heap, "-Xss" + stack, "-Djava.io.tmpdir=" + meta,
           "-cp", TLC_JAR, "tlc2.TLC", "-metadir", meta,
           "-workers", str(workers or NCPU)]
    if not deadlock:
        cmd.append("-deadlock")  # -deadlock switches deadlock checking OFF
    if cfg:
        cmd += ["-config", cfg]
    if coverage:
        cmd += ["-coverage", "1"]
    if simulate:
        cmd += ["-simulate", simulate]
    if extra:
        cmd += extra
    cmd.append(module)
    r = TlcResult()
    t0 = time.time()
    env = dict(os.environ)
    env.pop("JAVA_TOOL_OPTIONS", None)
    try:
        p = subprocess.run(["timeout", "-k", "10", str(timeout)] + cmd, cwd=sd, env=env,
                           stdout=subprocess.PIPE, stderr=subprocess.STDOUT)
    finally:
        shutil.rmtree(meta, ignore_errors=True)
    r.wall = time.time() - t0
    r.out = p.stdout.decode(errors="replace")
    if p.returncode in (124, 137):
        r.error = "TLC timeout after %ss" % timeout
        return r
    for ln in r.out.splitlines():
        ln = ln.strip()
        m = _JSONLINE.match(ln)
        if m:
            s = m.group(1)
            try:
                r.lines.append(json.loads(s))
                continue
            except ValueError:
                try:
                    r.lines.append(json.loads(s.replace('\\"', '"').replace("\\\\", "\\")))
                    continue
                except ValueError:
                    pass
        m = re.match(r"^(\d+) states generated, (\d+) distinct states found", ln)
        if m:
            r.states, r.distinct = int(m.group(1)), int(m.group(2))
    if "Model checking completed. No error has been found" in r.out or \
       (simulate and p.returncode == 0):
        r.ok = True
    m = re.search(r"Error: (Invariant .* is violated|Temporal propert[^\n]* violated|"
                  r"Action property .* is violated|Deadlock reached)[^\n]*", r.out)
    if m:
        r.violation = m.group(0)
    elif not r.ok:
        m = re.search(r"Error:.*", r.out, re.S)
        r.error = (m.group(0) if m else r.out)[-3000:]
    return r


def tlc_must(r, what):
    """Infrastructure guard: TLC must have completed (no crash, no timeout)."""
    if r.error:
        raise Infra("TLC failed on %s: %s" % (what, r.error))
    return r


# ---------------------------------------------------------------- findings / evidence

def known_findings():
    p = os.path.join(VERIF, "known_findings.json")
    if not os.path.exists(p):
        return {"findings": [], "fixed": []}
    return json.load(open(p))


def finding_for(prop, signature):
    for f in known_findings().get("findings", []):
        if f["property"] == prop and f["signature"] == signature:
            return f
    return None


class Report:
    """Collects failures for one property run and turns them into the exit
    protocol: KNOWN-FINDING lines for listed signatures, VIOLATION otherwise."""

    def __init__(self, prop, tier):
        self.prop, self.tier = prop, tier
        self.t0 = time.time()
        self.fail = []     # (signature, description, replay-dict)
        self.notes = []
        self.coverage = {}
        self.assumptions = []

    def failure(self, signature, desc, replay):
        self.fail.append((signature, desc, replay))

    def note(self, s):
        self.notes.append(s)
        log("note:", s)

    def finish(self, level):
        known, viol = {}, []
        for sig, desc, rp in self.fail:
            f = finding_for(self.prop, sig)
            if f is not None:
                known.setdefault(sig, []).append((desc, rp))
            else:
                viol.append((sig, desc, rp))
        for sig, items in sorted(known.items()):
            print("KNOWN-FINDING: property=%s %s (%d case(s), e.g. %s)" % (
                self.prop, sig, len(items), items[0][0]))
        rc = 0
        if viol:
            rdir = os.path.join(EVDIR, "replay")
            os.makedirs(rdir, exist_ok=True)
            seen = set()
            for sig, desc, rp in viol:
                if sig in seen or len(seen) >= 8:
                    continue
                seen.add(sig)
                path = os.path.join(rdir, "%s-%s.json" % (self.prop, re.sub(r"[^A-Za-z0-9_.-]", "_", sig)[:60]))
                with open(path, "w") as f:
                    json.dump({"property": self.prop, "signature": sig, "what": desc, "case": rp,
                               "others": len([1 for s, _, _ in viol if s == sig]) - 1}, f, indent=1)
                print("VIOLATION property=%s replay=%s" % (self.prop, path))
                print("  %s: %s" % (sig, desc))
            rc = 1
        cov = dict(self.coverage)
        cov.setdefault("known_finding_cases", {k: len(v) for k, v in known.items()})
        ev = {
            "property_id": self.prop, "tier": self.tier, "seed": seed(), "level": level,
            "coverage": cov, "assumptions": self.assumptions,
            "wall_s": round(time.time() - self.t0, 2), "violations": len(viol),
            "notes": self.notes,
        }
        os.makedirs(EVDIR, exist_ok=True)
        with open(os.path.join(EVDIR, self.prop + ".json"), "w") as f:
            json.dump(ev, f, indent=1)
        print("%s %s: %s in %.1fs (%d failing case(s), %d unlisted)" % (
            self.prop, self.tier, "OK" if rc == 0 else "VIOLATION", time.time() - self.t0,
            len(self.fail), len(viol)))
        return rc


def replay_filter(cases):
    """`./check Cnn <tier> --replay <file>`: restrict the population to the case stored in the replay file"""
    path = os.environ.get("VERIF_REPLAY")
    if not path:
        return cases
    try:
        d = json.load(open(path))
    except (OSError, ValueError) as e:
        raise Infra("cannot read replay file %s: %s" % (path, e))
    cj = (d.get("case") or {}).get("case_json")
    if cj is None:
        log("replay file carries no abstract case; running the whole check")
        return cases
    log("replaying case %s from %s" % (cj.get("id"), path))
    return [cj]


def main_wrap(fn):
    try:
        rc = fn()
    except Infra as e:
        print("INFRA: %s" % e)
        sys.exit(2)
    except SystemExit:
        raise
    except BaseException:
        # a bug in the machinery is an infrastructure problem (exit 2), never a verdict
        import traceback
        traceback.print_exc()
        print("INFRA: the check itself crashed (see the traceback above)")
        sys.exit(2)
    sys.exit(rc)


def pmap(fn, items, n=None):
    """Thread-parallel map for subprocess-bound work."""
    from concurrent.futures import ThreadPoolExecutor
    with ThreadPoolExecutor(max_workers=n or NCPU) as ex:
        return list(ex.map(fn, items))
