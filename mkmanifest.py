#!/usr/bin/env python3
"""Regenerates MANIFEST.json from the table below (kept in one place so it stays valid)."""
import json
CHECKS = {}
def chk(pid, level, text, note, tech, ref):
    CHECKS[pid] = {"property_id": pid, "quick_cmd": "./check %s quick" % pid, "thorough_cmd": "./check %s thorough" % pid,
        "evidence_file": "evidence/%s.json" % pid, "replay_cmd_template": "./check %s quick --replay {path}" % pid,
        "engine": "tlc-pipeline", "level_claimed": {"category": level, "text": text, "design_ref": ref},
        "level_note": note, "technique": tech}
BASE = "TLC/SANY and the CommunityModules Json module; Go toolchain; the text renderers and table scrapers in lib/ (abstract case -> .lox/Go text, generated arrays -> JSON); "
chk("C01", "model_checking",
    "ParserRT (TLA+ model of the generated parse loop, one action per template branch) loaded with the emitted tables is explored by TLC over every input up to a length bound and judged against the CFG definition of the language (CFG.tla: documented desugaring + least-fixed-point derivation spans); every real compiled parser is run on every string up to a per-grammar bound plus random derivations/mutations and TLC evaluates clean(w) <=> InLang(w) on each; recorded event traces of the real parsers are validated step by step as behaviours of ParserRT.",
    BASE + "per-grammar string bound; random grammars are a sample of all grammars",
    "TLA+ runtime model + definitional oracle checked by TLC; trace validation of real runs; real binary on all short strings", "DESIGN.md 3 C01")
chk("C03", "model_checking",
    "For every sentence explored, the sequence of action calls recorded from the real parser (method, arguments rendered as token index / node id / list / zero, result id) must equal the post-order of the unique derivation tree computed by TLC from the CFG definition with the documented sugar values (CFG!Expected); the same runs are validated as ParserRT behaviours (the model mirrors the emitted _act switch).",
    BASE + "productions of one rule with identical parameter types share a method, so production identity is checked through the arguments",
    "definitional tree/post-order oracle in TLA+ evaluated by TLC on recorded action traces; trace validation against ParserRT", "DESIGN.md 3 C03")
chk("C04", "translation_validation",
    "lox's LALR automaton (dumped in-process from the working tree: item sets with lookaheads, transitions, remaining actions, conflict flag) and the CLI verdict are compared by TLC with a reference construction written from the textbook (canonical LR(1) collection merged by core, LALR.tla) and the documented precedence rule: verdict equality and automaton isomorphism (walk from the start state, equal item sets, equal transitions, allowed action per cell).",
    BASE + "harness/cmd/dump serialises lr1.ParserTable faithfully; cells on which the documentation is silent accept any verdict",
    "reference LALR(1) construction in TLA+ evaluated by TLC per grammar; isomorphism walk", "DESIGN.md 3 C04")
chk("C05", "model_checking",
    "For enumerated operator tables (levels x associativity x operators per level, gaps in level numbers, shuffled declaration order, parentheses, an unqualified alternative) the tree built by the actions of the real parser on every operator chain up to a bound is compared by TLC with the precedence-climbing tree (Climb.tla); a sample of the runs is validated against ParserRT.",
    BASE + "chains up to 3 (quick) / 4 (thorough) operators exhaustively, longer ones sampled",
    "precedence-climbing definition in TLA+ evaluated by TLC on trees rebuilt from recorded action calls", "DESIGN.md 3 C05")
chk("C09", "model_checking",
    "Termination is checked as a liveness property (<>terminated under weak fairness) of ParserRT loaded with the real tables over every input (terminals + lexer ERROR) up to a bound, any lasso is replayed on the real parser; every real parser is run on every such string up to a larger bound under a callback budget and TLC evaluates: no panic, never a silent accept of a non-sentence, first delivered Error = FirstBad (viable-prefix least fixed point in CFG.tla); runs are trace-validated against ParserRT and the validated model stack at accept must be a sentence of G_E consuming the input in order.",
    BASE + "callback budget 80*(len+2) stands for non-termination; known findings are matched by mechanism-level signatures (known_findings.json)",
    "TLC liveness on the runtime model + definitional viable-prefix oracle on recorded runs + trace validation", "DESIGN.md 3 C09")
chk("C16", "model_checking",
    "Every grammar is generated twice (parser type with and without _onBounds); for every sentence explored TLC compares the recorded action/_onBounds events with the events derived from the derivation tree spans (one call right after the action for every non-empty user reduction, with first/last token; list/optional helper nodes with the span gathered so far; none for empty spans), and the variant without _onBounds must produce the same action sequence and no calls; runs are validated against ParserRT, which mirrors the trimming code.",
    BASE + "repeated identical calls of pass-through helper reductions are not counted (their number is not specified); grammars with *! are left to C03",
    "tree-span oracle in TLA+ evaluated by TLC on recorded event traces; trace validation", "DESIGN.md 3 C16")

def main():
    props = [json.loads(l)["id"] for l in open("/verif/properties.jsonl")]
    na = json.load(open("/verif/not_applicable.json")) if __import__("os").path.exists("/verif/not_applicable.json") else {}
    m = {"version": 1, "setup_cmd": "./setup.sh",
         "hooks": {"guard": "verif", "enable": "go build -tags verif (every check builds lox and the harness from /repo's working tree with this tag)",
                   "baseline_off_cmd": "cd /repo && GOFLAGS=-mod=mod GOPROXY=off GOSUMDB=off GOTOOLCHAIN=local go test -vet=off -count=1 ./...",
                   "source_commits": json.load(open("/verif/hook_commits.json")) if __import__("os").path.exists("/verif/hook_commits.json") else [],
                   "add_only": True},
         "engines": [{"name": "tlc-pipeline", "path": "check", "serves_properties": sorted(CHECKS),
                      "kind_free_text": "TLA+ specifications in spec/ checked with TLC on data recorded from the real generator and the real generated code (lib/*.py orchestrates; harness/ holds the Go kit compiled into generated packages and the in-process dump tool)"}],
         "checks": [CHECKS[p] for p in props if p in CHECKS],
         "not_applicable": [{"property_id": p, "reason": na.get(p, "check not yet built in this revision (work in progress; planned in DESIGN.md)")} for p in props if p not in CHECKS],
         "notes": "Known findings (genuine defects recorded, not repaired) are listed in known_findings.json; fixes are `fix:` commits in /repo."}
    json.dump(m, open("/verif/MANIFEST.json", "w"), indent=1)

if __name__ == "__main__":
    main()
