#!/usr/bin/env python3
"""Regenerates MANIFEST.json from the table below (kept in one place so it stays valid)."""
import json
CHECKS = {}
def chk(pid, level, text, note, tech, ref):
    CHECKS[pid] = {"property_id": pid, "quick_cmd": "./check %s quick" % pid, "thorough_cmd": "./check %s thorough" % pid,
        "evidence_file": "evidence/%s.json" % pid, "replay_cmd_template": "./check %s quick --replay {path}" % pid,
        "engine": "tlc-pipeline", "level_claimed": {"category": level, "text": text, "design_ref": ref},
        "level_note": note, "technique": tech}
BASE = "TLC/SANY and the CommunityModules Json module; Go toolchain; the text renderers and table scrapers in lib/ (abstract case -> .lox/Go text, generated arrays -> JSON); "
chk("C01", "model_checking",
    "ParserRT (TLA+ model of the generated parse loop, one action per template branch) loaded with the emitted tables is explored by TLC over every input up to a length bound and judged against the CFG definition of the language (CFG.tla: documented desugaring + least-fixed-point derivation spans); every real compiled parser is run on every string up to a per-grammar bound plus random derivations/mutations and TLC evaluates clean(w) <=> InLang(w) on each; recorded event traces of the real parsers are validated step by step as behaviours of ParserRT.",
    BASE + "per-grammar string bound; random grammars are a sample of all grammars",
    "TLA+ runtime model + definitional oracle checked by TLC; trace validation of real runs; real binary on all short strings", "DESIGN.md 3 C01")
chk("C03", "model_checking",
    "For every sentence explored, the sequence of action calls recorded from the real parser (method, arguments rendered as token index / node id / list / zero, result id) must equal the post-order of the unique derivation tree computed by TLC from the CFG definition with the documented sugar values (CFG!Expected); the same runs are validated as ParserRT behaviours (the model mirrors the emitted _act switch).",
    BASE + "productions of one rule with identical parameter types share a method, so production identity is checked through the arguments",
    "definitional tree/post-order oracle in TLA+ evaluated by TLC on recorded action traces; trace validation against ParserRT", "DESIGN.md 3 C03")
chk("C04", "translation_validation",
    "lox's LALR automaton (dumped in-process from the working tree: item sets with lookaheads, transitions, remaining actions, conflict flag) and the CLI verdict are compared by TLC with a reference construction written from the textbook (canonical LR(1) collection merged by core, LALR.tla) and the documented precedence rule: verdict equality and automaton isomorphism (walk from the start state, equal item sets, equal transitions, allowed action per cell). In addition the construction loop itself is modelled as written (LALRConstruct.tla: pending keys in sorted order, symbols in name order, merge into the state with the same kernel, re-queue on growth); every (state, symbol) visit the real ConstructLALR makes, reported by a verif-tag hook, must be the model's next visit, and the model must terminate with the reference automaton.",
    BASE + "harness/cmd/dump serialises lr1.ParserTable faithfully; cells on which the documentation is silent accept any verdict",
    "reference LALR(1) construction in TLA+ evaluated by TLC per grammar; isomorphism walk", "DESIGN.md 3 C04")
chk("C05", "model_checking",
    "For enumerated operator tables (levels x associativity x operators per level, gaps in level numbers, shuffled declaration order, parentheses, an unqualified alternative) the tree built by the actions of the real parser on every operator chain up to a bound is compared by TLC with the precedence-climbing tree (Climb.tla); a sample of the runs is validated against ParserRT.",
    BASE + "chains up to 3 (quick) / 4 (thorough) operators exhaustively, longer ones sampled",
    "precedence-climbing definition in TLA+ evaluated by TLC on trees rebuilt from recorded action calls", "DESIGN.md 3 C05")
chk("C09", "model_checking",
    "Termination is checked as a liveness property (<>terminated under weak fairness) of ParserRT loaded with the real tables over every input (terminals + lexer ERROR) up to a bound, any lasso is replayed on the real parser; every real parser is run on every such string up to a larger bound under a callback budget and TLC evaluates: no panic, never a silent accept of a non-sentence, first delivered Error = FirstBad (viable-prefix least fixed point in CFG.tla); runs are trace-validated against ParserRT and the validated model stack at accept must be a sentence of G_E consuming the input in order.",
    BASE + "callback budget 80*(len+2) stands for non-termination; known findings are matched by mechanism-level signatures (known_findings.json)",
    "TLC liveness on the runtime model + definitional viable-prefix oracle on recorded runs + trace validation", "DESIGN.md 3 C09")
chk("C16", "model_checking",
    "Every grammar is generated twice (parser type with and without _onBounds); for every sentence explored TLC compares the recorded action/_onBounds events with the events derived from the derivation tree spans (one call right after the action for every non-empty user reduction, with first/last token; list/optional helper nodes with the span gathered so far; none for empty spans), and the variant without _onBounds must produce the same action sequence and no calls; runs are validated against ParserRT, which mirrors the trimming code.",
    BASE + "recovery runs are judged by the local leaf predicate only for grammars without @list (its separators are not part of the value); repeated identical calls of pass-through helper reductions are not counted (their number is not specified); grammars with *! are left to C03",
    "tree-span oracle (sentences) and local first/last-leaf predicate (all runs incl. error recovery) in TLA+ evaluated by TLC on recorded event traces; trace validation", "DESIGN.md 3 C16")
chk("C02", "model_checking",
    "All strings, per specification: TLC explores the product of the decoded emitted table of every mode with the reference derivative automaton of the mode's rules (LexSem.tla: Antimirov partial derivatives, classes as interval sets) over the interval alphabet cut at every range boundary of both sides, with invariants viability / action labels / flag; every real state machine is driven by the real simplelexer over all strings up to a bound over a representative alphabet plus random long inputs with multi-byte runes and invalid UTF-8 and TLC compares the token streams with LexSem!Tokens up to the first error; PushRune-level traces are validated against LexerRT.",
    BASE + "simplelexer v0.5.0 as the reference driver; unicode/utf8 decoding; random rule sets are a sample",
    "product exploration (real table x reference automaton) in TLC; definitional tokenizer on recorded token streams; trace validation", "DESIGN.md 3 C02")
chk("C07", "model_checking",
    "Curated mode graphs (nested, recursive, re-entering the default mode, the documented examples) and every subset and permutation (<= 3) of @push_mode(A)/@push_mode()/@pop_mode/@emit/@discard on a token and on a fragment; each mode lexes the probe character to a different token, so the mode is visible in the token stream; for all strings over the probe alphabet up to the bound TLC compares the real token stream with the documented mode-stack semantics (LexSem!Tokens applies a rule's mode actions in written order) and validates the PushRune traces (state, stack depth, mode after every call) against LexerRT.",
    BASE + "compared up to the first lexical error (what Reset does to the mode stack is unspecified)",
    "definitional mode-stack tokenizer in TLA+ on recorded streams; trace validation against the state-machine model", "DESIGN.md 3 C07")
chk("C08", "model_checking",
    "prefix x body x terminator rule shapes with *? and +? (self-overlapping terminators, bodies containing the terminator's characters) with greedy neighbours; all strings up to the bound through the real lexer; TLC evaluates shortest-match semantics: full stream equality where the non-greedy rule's prefix is non-empty and unshared, otherwise per token (a token of a rule with a non-greedy repetition is the shortest match of that rule at its start, a token of a greedy rule the longest); traces validated against LexerRT; the as-built meaning of the non-greedy flag is checked for all strings in C10's product.",
    BASE + "where the documentation does not determine the whole stream (empty or shared prefix) only the per-token reading is asserted",
    "shortest-match oracle (partial derivatives) in TLA+ on recorded streams; trace validation", "DESIGN.md 3 C08")
chk("C10", "translation_validation",
    "Tables scraped from the generated files are decoded by TableObs.tla with the documented row format: well-formedness (index vector, row tiling, bounds, sorted disjoint ranges, parameter ranges) and state-by-state equality with lox's automata dumped in-process (parser: actions, gotos, _rules, _termCounts; lexer: ranges, targets, flag, action pairs); the lexer tables are additionally proved equivalent to the rules for all strings by the LexProduct exploration with the as-built non-greedy meaning; the row codec itself is checked on every TLC-enumerated small row sequence through the verif-tag hook (Decode(Encode(rows)) = rows, rows shared only when identical).",
    BASE + "harness/cmd/dump serialises lr1.ParserTable / mode.Mode faithfully; the hook only forwards to table.AddRow/Array",
    "decode-and-compare in TLA+ (TableObs), product exploration (LexProduct), small-scope codec enumeration (TableCodec); construction-stage models LexConstruct / NFAProduct as drift detectors", "DESIGN.md 3 C10")
chk("C11", "model_checking",
    "The reference driver and the state machine are modelled together (LexerTrace over LexerRT); every recorded run (all strings up to a bound + random long inputs, rule sets incl. nullable rules, accumulating fragments, modes, inputs ending inside a construct) is validated call by call against the model; the accounting itself is computed by LexAccount.tla from the *observed* PushRune results only (so it also judges runs that are no longer behaviours of the model): the segments token / discarded / error stretch must be consecutive and cover the input, nothing may be pending at EOF, and every token / discard segment must be text its rule can match (accumulated-fragment text followed by a match of a producing rule); reaching EOF is checked on the real code under a budget of 4*len+16 reads and 8*len+64 PushRune calls.",
    BASE + "budgets stand for non-termination; known findings matched by mechanism-level signatures",
    "trace validation of the driver+state-machine model with a ghost accounting variable", "DESIGN.md 3 C11")
chk("C15", "model_checking",
    "Rang3.tla models Normalize as a state machine (heap as a set popped in (B,E) order, the four geometric cases, onChange events, the relabelling map) and TLC checks exhaustively over every list of <= 3 ranges in 0..U: termination, every original range is the exact union of its pieces (invariant and per-event action property), final pieces disjoint-or-equal; the real rang3.Normalize/Flatten/Subtract are run on the same lists at three placements (0, U+4E00, up to U+10FFFF) and Rang3Trace requires the recorded onChange events to be exactly the model's and Flatten/Subtract to be set union/difference; over the full universe class and literal specifications (every escape, negation, difference, dot, overlapping classes, random ranges at UTF-8 length boundaries) are compared with LexSem!InClass at every boundary code point +-1 through the real lexer and through the emitted table.",
    BASE + "surrogate code points cannot occur in UTF-8 input and are not fed; U=5 (quick) / 7 (thorough)",
    "exhaustive TLC model of the range splitter + event-trace binding to the real package; boundary product exploration", "DESIGN.md 3 C15")
chk("C06", "exploration",
    "A fixed grammar skeleton (shared productions, x+, z?, @error) is bound to methods over a universe of 35 Go types (named/unnamed slices, maps, funcs, alias, interfaces, generic instantiations); configurations (result type x parameter type per term kind, token parameter types, method layouts: shared, ambiguous, missing, orphaned, unknown rule, two return types, two results, wrong arity) are decided by Binding.tla from the assignability/identity relations computed with go/types; lox's verdict must agree and name a production or method; every accepted package is compiled and six sentences are parsed with marked values so that every parameter is shown to hold the value produced for its term.",
    BASE + "go/types supplies assignability; the Go type system is not modelled; configurations are enumerated one dimension at a time around a collision-free base plus layouts",
    "verdict rule in TLA+ over go/types relations, evaluated by TLC per configuration; compiled value-flow marks", "DESIGN.md 3 C06")
chk("C12", "exploration",
    "GenPipeline.tla models one run as the stage pipeline ParseLox..EmitParser with its terminal states (success: three files, exit 0; failure: >= 1 diagnostic, exit != 0) and is model-checked; 190+ enumerated configuration faults (lox-side x go-side, with the stage that must fail) and hundreds (thousands in thorough) of token-level / byte-level mutations of valid grammars and texts derived from the shape of lox's own grammar are run through the real CLI; TLC validates every observation (exit, diagnostics, generated files present and parseable, panic, hang) as a terminal state of the model.",
    BASE + "the search over byte strings is generation with a specification as judge, not exploration of a model; no answer within 60 s (240 s re-run alone) on an input below 4 kB stands for a hang",
    "outcome model in TLA+; every observed run validated against it by TLC; fault enumeration + mutation", "DESIGN.md 3 C12")
chk("C13", "model_checking",
    "GenDir.tla (directory state: source, class of each generated file; actions Gen/SetSource/Delete/Corrupt/Stale) is model-checked (after Gen on a valid source all files are Out(src) whatever preceded; Gen is a fixpoint); enumerated histories ([Gen,] op [, op], Gen from every initial source, varying working directory and --report) are replayed on the real binary and validated step by step by GenDirTrace (file classes against fresh-directory output, exit status, report bytes); repeated generations in separate processes re-sample map iteration order.",
    BASE + "map iteration orders are re-sampled, not enumerated; seven projects (two unrelated valid ones, four siblings of the first that differ only in token order / one lexical expression / precedence levels / the Go sources, one invalid); an observed file class is the set of projects whose fresh output it equals; plus one five-file project generated from four file-creation orders on two file systems (scratch and /dev/shm when present)",
    "TLA+ directory model + trace validation of replayed histories", "DESIGN.md 3 C13")
chk("C14", "model_checking",
    "lox is built from a scratch copy of the working tree and run on internal/parser and the three examples; every generated file must be byte-identical to the checked-in one (12 file comparisons, exhaustive); the four one-step traces are validated against GenDir's Gen action with Out(src) := the checked-in bytes.",
    "the specification contributes only the one-step trace check; the comparison is exhaustive over the checked-in generated files",
    "regeneration + byte comparison, one-step trace validation against GenDir", "DESIGN.md 3 C14")
chk("C17", "exploration",
    "A well-formed two-file base specification and every single-fault variant (duplicate names across kinds, each naming rule, every kind of undefined/ambiguous reference, macro cycles used/unused, zero/two @start, @discard/@emit on tokens, doubled on fragments, empty literal, reversed range -- each in the default section, inside a mode and in the second file) plus well-formed variations; WellFormed.tla evaluates the documented rules on an abstract rendering of each variant; lox's in-process front-end verdict must agree and a diagnostic must point inside the faulty declaration.",
    BASE + "the abstract rendering of each variant is produced by the same generator as its text; don't-care shapes are never generated",
    "well-formedness rules in TLA+ evaluated by TLC on enumerated single-fault variants", "DESIGN.md 3 C17")
chk("C18", "model_checking",
    "Concurrent.tla states the design (instances own all mutable state, tables are never written) and TLC enumerates every interleaving of 2-3 instances at the granularity of lexer reads; every schedule is replayed on real goroutines through a blocking gate in ReadToken (same and mixed grammars, recovery, _onBounds) and each instance's event trace must equal its sequential trace; 64 goroutines run freely under the race detector; a go/ast inventory binds the spec's variable list to the generated files (package-level vars are exactly the tables; no function body writes them).",
    BASE + "Go race detector; interleavings finer than callbacks are covered only by -race and the inventory",
    "TLC-enumerated schedules replayed on goroutines; race detector; variable inventory", "DESIGN.md 3 C18")
chk("C19", "translation_validation",
    "TLC enumerates declaration layouts (tokens, tokens with modes, @external lines, @emit fragments, a second file sorting before/after); for each the expected numbering (EOF=0, ERROR=1, then dense in declaration order, files in name order) is compared with the const block, with _TokenToString evaluated in the compiled package over -1..n+1, with the token type the real lexer returns for each rule's lexeme, and with the keys of the parser's start-state action row; some layouts are generated over a directory that already holds the output of the same names declared in reverse order. The numbers in use: Lox.tla composes LexerRT (reference driver over the emitted lexer tables) and ParserRT (emitted parser tables) where the template pulls a token, TLC explores it over every text up to a bound for ten lexer+parser specifications and judges accept/reject against the definition (LexSem token types, then CFG membership); the compiled programs are run on the same texts and every run is checked against the definition and against the model (tokens pulled, verdict).",
    BASE + "layouts up to 4 items; all of length <= 2, a seeded sample of longer ones; each also with some terminals the parser never mentions and / or generated with --report; system texts up to 3 (thorough 4) characters in the model, 4 (5) plus random longer ones on the real programs",
    "expected numbering in TLA+ compared with the three generated files and the running lexer; composed lexer+parser model explored by TLC and bound to the compiled programs", "DESIGN.md 3 C19")

def main():
    props = [json.loads(l)["id"] for l in open("/verif/properties.jsonl")]
    na = json.load(open("/verif/not_applicable.json")) if __import__("os").path.exists("/verif/not_applicable.json") else {}
    m = {"version": 1, "setup_cmd": "./setup.sh",
         "hooks": {"guard": "verif", "enable": "go build -tags verif (every check builds lox and the harness from /repo's working tree with this tag)",
                   "baseline_off_cmd": "cd /repo && GOFLAGS=-mod=mod GOPROXY=off GOSUMDB=off GOTOOLCHAIN=local go test -vet=off -count=1 ./...",
                   "source_commits": json.load(open("/verif/hook_commits.json")) if __import__("os").path.exists("/verif/hook_commits.json") else [],
                   "add_only": True},
         "engines": [{"name": "tlc-pipeline", "path": "check", "serves_properties": sorted(CHECKS),
                      "kind_free_text": "TLA+ specifications in spec/ checked with TLC on data recorded from the real generator and the real generated code (lib/*.py orchestrates; harness/ holds the Go kit compiled into generated packages and the in-process dump tool)"}],
         "checks": [CHECKS[p] for p in props if p in CHECKS],
         "not_applicable": [{"property_id": p, "reason": na.get(p, "check not yet built in this revision (work in progress; planned in DESIGN.md)")} for p in props if p not in CHECKS],
         "notes": "Known findings (genuine defects recorded, not repaired) are listed in known_findings.json; fixes are `fix:` commits in /repo."}
    json.dump(m, open("/verif/MANIFEST.json", "w"), indent=1)

if __name__ == "__main__":
    main()
