------------------------------- MODULE LexObs -------------------------------
(***************************************************************************)
(* Definitional token streams against recorded real token streams.         *)
(* LCases[c] = [macros (record name -> expr), modes |-> <<[name, rules]>>, *)
(*              tables, ...];   LRuns[r] = [c, chars, tokens, ng, ...]     *)
(* Compared up to and including the first ERROR (what Reset does to the    *)
(* mode stack afterwards is unspecified).                                  *)
(***************************************************************************)
EXTENDS LexSem, LData, TLC

VARIABLES rid, done

RECURSIVE UpToError(_)
UpToError(ts) == IF ts = <<>> THEN <<>>
                 ELSE IF Head(ts)[1] \in {0, 1} THEN <<Head(ts)>>
                 ELSE <<Head(ts)>> \o UpToError(Tail(ts))

Tok3(ts) == [k \in DOMAIN ts |-> <<ts[k][1], ts[k][2], ts[k][3]>>]

RECURSIVE CharIdx(_, _, _, _)
\* char index of byte offset b
CharIdx(chars, b, k, off) == IF off >= b \/ k >= Len(chars) THEN k ELSE CharIdx(chars, b, k + 1, off + chars[k + 1][2])

\* per-token reading of C08 (used where the full stream is not determined by the documentation):
\*  a token of a rule of the shape prefix / non-greedy repetition / literal terminator is the shortest
\*  non-empty match of that rule at its start (other rules containing *? or +? only have to match),
\*  a token of a greedy rule is the longest match of that rule at its start
TokenOk(C, chars, t) ==
  IF t[1] < 2 THEN TRUE
  ELSE LET \* the token rules of *any* mode that carry this token type
           cand == UNION {{C.modes[m].rules[r] : r \in {q \in DOMAIN C.modes[m].rules :
                              C.modes[m].rules[q].kind = "token" /\ C.modes[m].rules[q].tok = t[1]}} : m \in DOMAIN C.modes}
           i == CharIdx(chars, t[2], 0, 0)
           j == CharIdx(chars, t[3], 0, 0)
       IN \E rl \in cand :
            LET ends == RuleEnds(C.macros, rl.expr, chars, i) \ {i}
            IN /\ j \in ends
               /\ IF NGShape(C.macros, rl.expr) THEN \A x \in ends : j <= x
                  ELSE IF HasNG(C.macros, rl.expr) THEN TRUE      \* outside the shape C08 describes: only "is a match"
                  ELSE \A x \in ends : j >= x

Check ==
  LET Rn == LRuns[rid]
      C == LCases[Rn.c]
      got == UpToError(Tok3(Rn.tokens))
  IN IF Rn.ng = "pertoken"
     THEN LET badk == {k \in DOMAIN got : ~TokenOk(C, Rn.chars, got[k])}
          IN IF badk = {} THEN TRUE
             ELSE PrintT(ToJson([lo |-> "bad", r |-> rid - 1, c |-> Rn.c - 1, want |-> <<>>, got |-> got,
                                 badtok |-> CHOOSE k \in badk : \A q \in badk : k <= q]))
     ELSE LET want == Tokens(C.macros, C.modes, Rn.chars, 0, 0, 1, <<>>, Rn.ng = "stream", 4 * Len(Rn.chars) + 8)
          IN IF got = want THEN TRUE
             ELSE PrintT(ToJson([lo |-> "bad", r |-> rid - 1, c |-> Rn.c - 1, want |-> want, got |-> got, badtok |-> 0]))

Init == rid \in 1..Len(LRuns) /\ done = FALSE
Next == ~done /\ done' = TRUE /\ rid' = rid /\ Check
Spec == Init /\ [][Next]_<<rid, done>>
=============================================================================
