SPECIFICATION TSpec
CONSTANT U = 7
CHECK_DEADLOCK FALSE
