----------------------------- MODULE Rang3Trace -----------------------------
(***************************************************************************)
(* Binding of Rang3.tla to the real code: for every list the harness       *)
(* (harness/cmd/rang3t) called rang3.Normalize / Flatten / Subtract; the   *)
(* recorded onChange events must be exactly the events of the model's run, *)
(* Flatten must be the canonical form of the union and Subtract the set    *)
(* difference.  RRuns[k] = [a, b, events, flat, flatev, sub, panic] with   *)
(* coordinates translated back to 0..U.                                    *)
(***************************************************************************)
EXTENDS Rang3Defs, TLC, Json

RRuns == JsonDeserialize("rang3_runs.json")

VARIABLES k, fin

SetOf(l) == {l[i] : i \in DOMAIN l}
Sorted(l) == \A i \in DOMAIN l : l[i][1] <= l[i][2] /\ (i > 1 => l[i - 1][2] < l[i][1])

Check ==
  LET R == RRuns[k]
      ev == NormRun(SetOf(R.a), 60)
      evOk == R.events = ev
      flatOk == PtsOfList(R.flat) = PtsOfList(R.a) /\ Canonical(R.flat)
      flatEvOk == \A i \in DOMAIN R.flatev :
                    Pts(R.flatev[i][3]) = Pts(R.flatev[i][1]) \cup Pts(R.flatev[i][2])
                    /\ R.flatev[i][3][1] <= R.flatev[i][3][2]
      subOk == /\ PtsOfList(R.sub) = PtsOfList(R.a) \ PtsOfList(R.b)
               /\ (R.a # <<>> /\ R.b # <<>> => Sorted(R.sub))
  IN IF R.panic = "" /\ evOk /\ flatOk /\ flatEvOk /\ subOk THEN TRUE
     ELSE PrintT(ToJson([r3 |-> "bad", k |-> k - 1, evOk |-> evOk, flatOk |-> flatOk, flatEvOk |-> flatEvOk,
                         subOk |-> subOk, panic |-> R.panic, model |-> ev]))

TInit == k \in 1..Len(RRuns) /\ fin = FALSE
TNext == ~fin /\ fin' = TRUE /\ k' = k /\ Check
TSpec == TInit /\ [][TNext]_<<k, fin>>
=============================================================================
