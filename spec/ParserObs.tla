------------------------------ MODULE ParserObs ------------------------------
(***************************************************************************)
(* Definitional predicates evaluated on recorded runs of real generated    *)
(* parsers.  Runs[r] = [c, w, ok, panic, budget, errs, nact, full, events, *)
(* chk] where chk is the set of predicates asked for:                      *)
(*   "c01"   clean(w) <=> w in L(G)                                         *)
(*   "c03"   act events = post-order of the derivation tree (sentences)    *)
(*   "c16"   act+bounds events = tree events with spans (sentences)        *)
(*   "c16e"  every recorded _onBounds call carries the first and last leaf  *)
(*           of the value it is given, and every action whose value has a  *)
(*           leaf is followed by one (any run, error recovery included;    *)
(*           an Error leaf stands for the token it blames)                 *)
(*   "c09"   (a) terminated, no panic  (b) no silent accept                *)
(*           (c) first Error delivered blames the first offending token    *)
(*           (d) accepted => consumed symbols form a sentence of G_E       *)
(* One line is printed per run whose predicates do not all hold.           *)
(***************************************************************************)
EXTENDS Integers, Sequences, FiniteSets, TLC, CFG, PData

VARIABLES rid, done

Ds == [c \in 1..Len(Cases) |-> DocDesugar(Cases[c].g)]

R == Runs[rid]
D == Ds[R.c]
Chk == SeqRange(R.chk)
HasErrTok(w) == \E i \in DOMAIN w : w[i] = 1

-----------------------------------------------------------------------------
(* yield of the tree rebuilt from the recorded action calls *)
ActsOf(evs) == Filter(evs, {"act"})

RECURSIVE YieldV(_, _)
RECURSIVE YieldL(_, _)
\* leaves as <<kind, idx, ty>>
YieldV(acts, v) ==
  CASE v.k = "t" -> <<<<"t", v.i, v.ty>>>>
    [] v.k = "x" -> <<<<"x", v.i, 1>>>>
    [] v.k = "l" -> YieldL(acts, v.l)
    [] v.k = "n" -> YieldL(acts, acts[v.i + 1].args)
    [] OTHER -> <<>>
YieldL(acts, vs) == IF vs = <<>> THEN <<>> ELSE YieldV(acts, Head(vs)) \o YieldL(acts, Tail(vs))

\* input tokens in order, stretches possibly replaced by @error
RECURSIVE Consumes(_, _, _, _, _)
Consumes(y, k, w, c, gap) ==
  IF k > Len(y) THEN c = Len(w) \/ gap
  ELSE IF y[k][1] = "x" THEN Consumes(y, k + 1, w, c, TRUE)
  ELSE LET idx == y[k][2] IN
       /\ idx < Len(w) /\ w[idx + 1] = y[k][3]
       /\ (idx = c \/ (idx > c /\ gap))
       /\ Consumes(y, k + 1, w, idx + 1, FALSE)

-----------------------------------------------------------------------------
\* C16 on any run: local, independent of the model and of the derivation tree
BoundsLocal(evs) ==
  LET acts == ActsOf(evs) IN
  \A k \in DOMAIN evs :
    /\ evs[k].e = "bounds" =>
         LET y == YieldV(acts, evs[k].v) IN y # <<>> /\ evs[k].i = y[1][2] /\ evs[k].end = y[Len(y)][2]
    /\ (evs[k].e = "act" /\ YieldL(acts, evs[k].args) # <<>>) =>
         k < Len(evs) /\ evs[k + 1].e = "bounds" /\ evs[k + 1].v.k = "n" /\ evs[k + 1].v.i = evs[k].ret

Clean == R.ok /\ R.errs = <<>> /\ R.panic = "" /\ ~R.budget

Check ==
  LET w == R.w
      S == Spans(D, w)
      inl == ~HasErrTok(w) /\ InLangS(D, w, S)
      c01 == IF "c01" \in Chk THEN (Clean <=> inl) ELSE TRUE
      exp == IF inl /\ ({"c03", "c16"} \cap Chk # {})
             THEN Expected(D, w, S, Cases[R.c].meth, "c16" \in Chk) ELSE [ev |-> <<>>, amb |-> FALSE]
      c03 == IF "c03" \in Chk /\ inl /\ R.full /\ Clean
             THEN ActsOf(R.events) = Filter(exp.ev, {"act"}) ELSE TRUE
      c16 == IF "c16" \in Chk /\ inl /\ R.full /\ Clean
             THEN DedupB(Filter(R.events, {"act", "bounds"})) = DedupB(exp.ev) ELSE TRUE
      c16n == IF "c16n" \in Chk /\ R.full       \* parser type without _onBounds: never called
              THEN Filter(R.events, {"bounds"}) = <<>> ELSE TRUE
      c16e == IF "c16e" \in Chk /\ R.full /\ R.panic = "" /\ ~R.budget THEN BoundsLocal(R.events) ELSE TRUE
      amb == exp.amb
      c09a == IF "c09" \in Chk THEN R.panic = "" /\ ~R.budget ELSE TRUE
      c09b == IF "c09" \in Chk /\ ~R.budget /\ R.panic = "" THEN (~inl => (~R.ok \/ R.errs # <<>>)) ELSE TRUE
      fb == IF "c09" \in Chk /\ R.errs # <<>> THEN
              (IF HasErrTok(w)
               THEN LET k == CHOOSE k \in DOMAIN w : w[k] = 1 /\ \A q \in 1..(k - 1) : w[q] # 1
                        f == FirstBad(D, SubSeq(w, 1, k - 1))
                    IN IF f = -1 \/ f = k - 1 THEN k - 1 ELSE f
               ELSE FirstBad(D, w))
            ELSE -2
      c09c == IF fb = -2 THEN TRUE ELSE R.errs[1] = fb
      c09d == TRUE   \* evaluated by ParserTrace on the validated model stack
      bad == (IF c01 THEN {} ELSE {"c01"}) \cup (IF c03 THEN {} ELSE {"c03"}) \cup (IF c16 THEN {} ELSE {"c16"})
             \cup (IF c16n THEN {} ELSE {"c16n"}) \cup (IF c16e THEN {} ELSE {"c16e"}) \cup (IF amb THEN {"amb"} ELSE {})
             \cup (IF c09a THEN {} ELSE {"c09a"}) \cup (IF c09b THEN {} ELSE {"c09b"})
             \cup (IF c09c THEN {} ELSE {"c09c"}) \cup (IF c09d THEN {} ELSE {"c09d"})
  IN IF bad = {} THEN TRUE
     ELSE PrintT(ToJson([ob |-> "bad", r |-> rid - 1, c |-> R.c - 1, bad |-> bad, inl |-> inl, fb |-> fb,
                         exp |-> IF ~c03 \/ ~c16 THEN exp.ev ELSE <<>>]))

Init == rid \in 1..Len(Runs) /\ done = FALSE
Next == ~done /\ done' = TRUE /\ rid' = rid /\ Check
Spec == Init /\ [][Next]_<<rid, done>>
=============================================================================
