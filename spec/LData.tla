------------------------------- MODULE LData -------------------------------
(* Data of one lexer check run (zero-arity definitions: evaluated once).    *)
EXTENDS Json
LCases == JsonDeserialize("lcases.json")
LRuns == JsonDeserialize("lruns.json")
=============================================================================
