------------------------------ MODULE ParserMC ------------------------------
(***************************************************************************)
(* Exhaustive exploration of ParserRT loaded with the emitted tables over  *)
(* every input up to MaxLen (the lexer chooses each next token freely).    *)
(* Control flow only (Track = FALSE): the parser's control state does not  *)
(* depend on semantic values.  Judged at every terminal state against the *)
(* definition of the language; termination is a liveness property.         *)
(***************************************************************************)
EXTENDS ParserRT, TLC

VARIABLE judged
mvars == <<vars, judged>>

Ds == [c \in 1..Len(Cases) |-> DocDesugar(Cases[c].g)]
NoErrTok == \A i \in DOMAIN w : w[i] # 1
Sentence == NoErrTok /\ InLang(Ds[cid], w)
CleanAccept == pc = "accept" /\ ~rec

MCInit == Init /\ judged = FALSE

Judge ==
  /\ pc \in Final /\ ~judged
  /\ judged' = TRUE
  /\ UNCHANGED vars
  /\ LET s == Sentence
         good == (CleanAccept <=> s) /\ pc # "panic"
     IN IF good THEN TRUE
        ELSE PrintT(ToJson([mc |-> "bad", c |-> cid - 1, w |-> w, pc |-> pc, rec |-> rec, sentence |-> s]))

MCNext == (Next /\ UNCHANGED judged) \/ Judge
MCSpec == MCInit /\ [][MCNext]_mvars /\ WF_mvars(MCNext)
MCTerminates == <>(pc \in Final)
=============================================================================
