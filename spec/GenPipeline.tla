---------------------------- MODULE GenPipeline ----------------------------
(* The generator run as a state machine; definitions and the narrative are in GenPipelineDefs. *)
EXTENDS GenPipelineDefs

VARIABLES stage, written, diags, exit, pc
pvars == <<stage, written, diags, exit, pc>>

PInit == stage = 1 /\ written = {} /\ diags = 0 /\ exit = -1 /\ pc = "running"

StageOk ==
  /\ pc = "running"
  /\ written' = written \cup Writes[Stages[stage]]
  /\ IF stage = Len(Stages) THEN pc' = "success" /\ exit' = 0 /\ stage' = stage
     ELSE pc' = pc /\ exit' = exit /\ stage' = stage + 1
  /\ diags' = diags

StageFails ==
  /\ pc = "running"
  /\ \E n \in 1..3 : diags' = diags + n
  /\ pc' = "failed" /\ exit' = 1
  /\ UNCHANGED <<stage, written>>

PNext == StageOk \/ StageFails
PSpec == PInit /\ [][PNext]_pvars

\* what the property says about terminal states
Outcome == /\ (pc = "success" => written = {"base", "lexer", "parser"} /\ exit = 0)
           /\ (pc = "failed" => diags >= 1 /\ exit # 0)

=============================================================================
