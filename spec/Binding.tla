------------------------------- MODULE Binding -------------------------------
(***************************************************************************)
(* C06: type-matched action binding.  The grammar skeleton is fixed:       *)
(*     s = x A | x B | y+ C | z? D | @error E ;  x = E ; y = E ; z = E     *)
(* A configuration chooses the Go result type of x, y and z, the parameter *)
(* types of s's methods and how s's productions are spread over methods.   *)
(* Go's assignability and identity relations over the type universe are    *)
(* constants supplied by go/types (harness/cmd/gotypes); the verdict is    *)
(* the documented rule: every production has exactly one method of its     *)
(* rule with as many parameters as terms, each accepting the term's value  *)
(* type by assignability; all methods of a rule return one type; no on_    *)
(* method is left over; every on_ method names a rule and returns exactly  *)
(* one value.                                                              *)
(*                                                                         *)
(* Cfg = [types (names), assignable, identical]                            *)
(* BCases[c] = [methods |-> <<[rule, params |-> <<type>>, nret, ret]>>,    *)
(*              ruletype |-> [s, x, y, z |-> type index],                  *)
(*              ok (lox succeeded), built, marks ... ]                     *)
(* prods of s as term-type sequences are derived from ruletype.            *)
(***************************************************************************)
EXTENDS Integers, Sequences, FiniteSets, TLC, Json

Cfg == JsonDeserialize("binding_cfg.json")
BCases == JsonDeserialize("binding_cases.json")

Assignable(a, b) == Cfg.assignable[a][b]
Identical(a, b) == Cfg.identical[a][b]
TOKEN == Cfg.token
ERRORT == Cfg.error
SliceOf(t) == Cfg.sliceof[t]        \* index of []t in the universe

\* productions of the skeleton as sequences of term value types
Prods(rt) ==
  [s |-> << <<rt.x, TOKEN>>, <<rt.x, TOKEN>>, <<SliceOf(rt.y), TOKEN>>, <<rt.z, TOKEN>>, <<ERRORT, TOKEN>> >>,
   x |-> << <<TOKEN>> >>, y |-> << <<TOKEN>> >>, z |-> << <<TOKEN>> >>]
Rules == {"s", "x", "y", "z"}

Matches(m, terms) ==
  /\ Len(m.params) = Len(terms)
  /\ \A i \in DOMAIN terms : Assignable(terms[i], m.params[i])

Verdict(C) ==
  LET ms == C.methods
      M == DOMAIN ms
      known == \A i \in M : ms[i].rule \in Rules
      oneResult == \A i \in M : ms[i].nret = 1
      \* the result type of a rule: that of its methods, which must agree
      sameRet == \A i \in M, j \in M : ms[i].rule = ms[j].rule => Identical(ms[i].ret, ms[j].ret)
      hasMethod == \A r \in Rules : \E i \in M : ms[i].rule = r
      P == Prods(C.ruletype)
      matchset(r, k) == {i \in M : ms[i].rule = r /\ Matches(ms[i], P[r][k])}
      eachOne == \A r \in Rules : \A k \in DOMAIN P[r] : Cardinality(matchset(r, k)) = 1
      used == UNION {UNION {matchset(r, k) : k \in DOMAIN P[r]} : r \in Rules}
      noOrphan == used = M
  IN [ok |-> known /\ oneResult /\ sameRet /\ hasMethod /\ eachOne /\ noOrphan,
      known |-> known, oneResult |-> oneResult, sameRet |-> sameRet, hasMethod |-> hasMethod, eachOne |-> eachOne, noOrphan |-> noOrphan]

VARIABLES cid, done
Check(c) ==
  LET C == BCases[c]
      judged == C.onbounds \in {"none", "ok"}
      v == IF judged THEN Verdict(C)
           ELSE [ok |-> TRUE, known |-> TRUE, oneResult |-> TRUE, sameRet |-> TRUE, hasMethod |-> TRUE, eachOne |-> TRUE, noOrphan |-> TRUE]
      \* a _onBounds method that does not have the documented signature puts the package outside the property's premise:
      \* rejecting it with a diagnostic is fine, succeeding is fine only if the result compiles (checked by `builds`)
      agree == IF C.onbounds = "bad" \/ C.onbounds = "other-grammar" THEN TRUE
               ELSE IF C.onbounds = "must-succeed" THEN C.ok      \* bound by construction (types outside the relation tables)
               ELSE C.ok = v.ok
      builds == C.ok => C.built
      flows == (C.ok /\ C.built) => C.marks = C.expmarks      \* every parameter holds the value produced for its term
  IN IF agree /\ builds /\ flows THEN TRUE
     ELSE PrintT(ToJson([bind |-> "bad", c |-> c - 1, agree |-> agree, builds |-> builds, flows |-> flows, v |-> v]))
Init == cid \in 1..Len(BCases) /\ done = FALSE
Next == ~done /\ done' = TRUE /\ cid' = cid /\ Check(cid)
Spec == Init /\ [][Next]_<<cid, done>>
=============================================================================
