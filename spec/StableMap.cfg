SPECIFICATION Spec
CONSTANTS
  Keys = {1, 2, 3}
  Vals = {7, 8}
  MaxOps = 5
INVARIANT Distinct
PROPERTIES OrderStable NewIsLast
CHECK_DEADLOCK FALSE
