------------------------------- MODULE LexSem -------------------------------
(***************************************************************************)
(* Meaning of lox lexer rules, independent of lox's Thompson / subset /    *)
(* partition-refinement pipeline: Antimirov partial derivatives over the   *)
(* rule expressions, classes as sets of closed code-point intervals.       *)
(*                                                                         *)
(* Expressions (uniform records, see lib/lcase.py):                        *)
(*   [k, cs, neg, items, hassub, sneg, sitems, es, name]                   *)
(*   k in lit | cls | any | cat | alt | opt | star | plus | starng |       *)
(*        plusng | ref                                                     *)
(* A spine is a sequence of expressions still to be matched; the state of  *)
(* the reference matcher is a set of <<rule index, spine>>.                *)
(***************************************************************************)
EXTENDS Integers, Sequences, FiniteSets

MaxRune == 1114111

InItems(a, items) == \E k \in DOMAIN items : items[k][1] <= a /\ a <= items[k][2]
InSimple(a, neg, items) == a >= 0 /\ a <= MaxRune /\ (InItems(a, items) # neg)
\* set-theoretic meaning of a class expression over U+0000..U+10FFFF
InClass(a, e) ==
  CASE e.k = "any" -> a >= 0 /\ a <= MaxRune
    [] e.k = "cls" -> InSimple(a, e.neg, e.items) /\ (e.hassub => ~InSimple(a, e.sneg, e.sitems))

RECURSIVE Nullable(_, _)
Nullable(Mac, e) ==
  CASE e.k \in {"lit", "cls", "any"} -> e.k = "lit" /\ e.cs = <<>>
    [] e.k = "cat" -> \A k \in DOMAIN e.es : Nullable(Mac, e.es[k])
    [] e.k = "alt" -> \E k \in DOMAIN e.es : Nullable(Mac, e.es[k])
    [] e.k \in {"opt", "star", "starng"} -> TRUE
    [] e.k \in {"plus", "plusng"} -> Nullable(Mac, e.es[1])
    [] e.k = "ref" -> Nullable(Mac, Mac[e.name])

SpineNullable(Mac, sp) == \A k \in DOMAIN sp : Nullable(Mac, sp[k])

StarOf(e) == [e EXCEPT !.k = IF e.k \in {"starng", "plusng"} THEN "starng" ELSE "star"]

RECURSIVE PD1(_, _, _)
RECURSIVE PDS(_, _, _)
\* partial derivatives of one expression: a set of spines
PD1(Mac, a, e) ==
  CASE e.k = "lit" -> IF e.cs # <<>> /\ e.cs[1] = a
                      THEN (IF Len(e.cs) = 1 THEN {<<>>} ELSE {<<[e EXCEPT !.cs = Tail(e.cs)]>>})
                      ELSE {}
    [] e.k \in {"cls", "any"} -> IF InClass(a, e) THEN {<<>>} ELSE {}
    [] e.k = "cat" -> PDS(Mac, a, e.es)
    [] e.k = "alt" -> UNION {PD1(Mac, a, e.es[k]) : k \in DOMAIN e.es}
    [] e.k = "opt" -> PD1(Mac, a, e.es[1])
    [] e.k \in {"star", "starng", "plus", "plusng"} ->
         {t \o <<StarOf(e)>> : t \in PD1(Mac, a, e.es[1])}
    [] e.k = "ref" -> PD1(Mac, a, Mac[e.name])

PDS(Mac, a, sp) ==
  IF sp = <<>> THEN {}
  ELSE {t \o Tail(sp) : t \in PD1(Mac, a, Head(sp))}
       \cup (IF Nullable(Mac, Head(sp)) THEN PDS(Mac, a, Tail(sp)) ELSE {})

\* one step of the reference matcher
Deriv(Mac, a, RS) == UNION {{<<rs[1], t>> : t \in PDS(Mac, a, rs[2])} : rs \in RS}
StartSet(rules) == {<<r, <<rules[r].expr>>>> : r \in DOMAIN rules}
Matching(Mac, RS) == {rs[1] : rs \in {rs \in RS : SpineNullable(Mac, rs[2])}}
Winner(Mac, RS) == LET m == Matching(Mac, RS) IN IF m = {} THEN 0 ELSE CHOOSE r \in m : \A q \in m : r <= q

\* As built by lox: the exit state of a `*?` loop is in the epsilon closure, i.e. some
\* spine can reach the continuation of a non-greedy loop without consuming input.
RECURSIVE AtNGExit(_, _)
AtNGExit(Mac, e) ==
  CASE e.k = "starng" -> TRUE
    [] e.k = "plusng" -> AtNGExit(Mac, e.es[1])
    [] e.k \in {"opt", "star", "plus"} -> AtNGExit(Mac, e.es[1])
    [] e.k = "alt" -> \E k \in DOMAIN e.es : AtNGExit(Mac, e.es[k])
    [] e.k = "cat" -> \E k \in DOMAIN e.es : AtNGExit(Mac, e.es[k]) /\ \A q \in 1..(k - 1) : Nullable(Mac, e.es[q])
    [] e.k = "ref" -> AtNGExit(Mac, Mac[e.name])
    [] OTHER -> FALSE
SpineAtNGExit(Mac, sp) == \E k \in DOMAIN sp : AtNGExit(Mac, sp[k]) /\ \A q \in 1..(k - 1) : Nullable(Mac, sp[q])

\* does the rule expression contain a non-greedy repetition?
RECURSIVE HasNG(_, _)
HasNG(Mac, e) ==
  CASE e.k \in {"starng", "plusng"} -> TRUE
    [] e.k \in {"cat", "alt", "opt", "star", "plus"} -> \E k \in DOMAIN e.es : HasNG(Mac, e.es[k])
    [] e.k = "ref" -> HasNG(Mac, Mac[e.name])
    [] OTHER -> FALSE

\* all end positions j >= i (in chars) such that chars[i+1..j] is matched by the spines SP
RECURSIVE EndsFrom(_, _, _, _)
EndsFrom(Mac, chars, j, SP) ==
  (IF \E sp \in SP : SpineNullable(Mac, sp) THEN {j} ELSE {})
  \cup (IF j >= Len(chars) \/ SP = {} THEN {}
        ELSE EndsFrom(Mac, chars, j + 1, UNION {PDS(Mac, chars[j + 1][1], sp) : sp \in SP}))
RuleEnds(Mac, e, chars, i) == EndsFrom(Mac, chars, i, {<<e>>})

\* the rule shape C08 speaks about: prefix, one non-greedy repetition, non-empty literal terminator
NGShape(Mac, e) ==
  /\ e.k = "cat" /\ Len(e.es) >= 2
  /\ LET n == Len(e.es) IN
     /\ e.es[n].k = "lit" /\ e.es[n].cs # <<>>
     /\ e.es[n - 1].k \in {"starng", "plusng"} /\ ~HasNG(Mac, e.es[n - 1].es[1])
     /\ \A q \in 1..(n - 2) : ~HasNG(Mac, e.es[q])

-----------------------------------------------------------------------------
(* Reference tokenizer.                                                    *)
(* chars: sequence of <<rune, width>>; Modes[m] = [name, rules]; rules[r] = *)
(* [kind, tok, expr, acts] with acts a sequence of <<type, param>>:        *)
(*   "push" m | "pop" 0 | "emit" t | "discard" 0                           *)
(* Scan(m, i): the longest run from i that is a prefix of some match of    *)
(* mode m (no backtracking); with non-greedy rules the run also ends as    *)
(* soon as the winning rule is one that contains a non-greedy repetition   *)
(* (its first complete match).                                             *)
(***************************************************************************)

RECURSIVE ScanFrom(_, _, _, _, _, _)
\* returns <<end index, matcher state at the end>>; i = number of chars consumed so far
ScanFrom(Mac, rules, chars, i, RS, ngstop) ==
  IF i >= Len(chars) THEN <<i, RS>>
  ELSE LET nx == Deriv(Mac, chars[i + 1][1], RS) IN
       IF nx = {} THEN <<i, RS>>
       ELSE IF ngstop /\ Winner(Mac, nx) # 0 /\ HasNG(Mac, rules[Winner(Mac, nx)].expr) THEN <<i + 1, nx>>
       ELSE ScanFrom(Mac, rules, chars, i + 1, nx, ngstop)

RECURSIVE ByteOff(_, _)
ByteOff(chars, i) == IF i = 0 THEN 0 ELSE ByteOff(chars, i - 1) + chars[i][2]

\* apply the mode actions of a rule, in the order written, to <<mode, stack>>;
\* returns <<mode, stack, ok>> (ok = FALSE: @pop_mode on an empty stack)
RECURSIVE ApplyModeActs(_, _, _, _)
ApplyModeActs(acts, k, m, st) ==
  IF k > Len(acts) THEN <<m, st, TRUE>>
  ELSE IF acts[k][1] = "push" THEN ApplyModeActs(acts, k + 1, acts[k][2], Append(st, m))
  ELSE IF acts[k][1] = "pop"
       THEN (IF st = <<>> THEN <<m, st, FALSE>>
             ELSE ApplyModeActs(acts, k + 1, st[Len(st)], SubSeq(st, 1, Len(st) - 1)))
  ELSE ApplyModeActs(acts, k + 1, m, st)

Effect(rule) ==
  IF rule.kind = "token" THEN <<"emit", rule.tok>>
  ELSE IF \E k \in DOMAIN rule.acts : rule.acts[k][1] = "emit"
       THEN <<"emit", rule.acts[CHOOSE k \in DOMAIN rule.acts : rule.acts[k][1] = "emit"][2]>>
  ELSE IF \E k \in DOMAIN rule.acts : rule.acts[k][1] = "discard" THEN <<"discard", 0>>
  ELSE <<"accum", 0>>

\* the action pairs a table row carries for a rule: its mode actions in the order written
\* (1 push mode index, 2 pop), then the one action that ends the match
\* (3 accept token, 4 discard, 5 accumulate) -- the state machine returns when it runs that one
EncAct(a) == IF a[1] = "push" THEN <<1, a[2] - 1>> ELSE <<2, 0>>
EncActs(rule) ==
  LET ma == SelectSeq(rule.acts, LAMBDA a : a[1] \in {"push", "pop"})
      eff == Effect(rule)
      last == CASE eff[1] = "emit" -> <<3, eff[2]>> [] eff[1] = "discard" -> <<4, 0>> [] OTHER -> <<5, 0>>
  IN [k \in DOMAIN ma |-> EncAct(ma[k])] \o <<last>>

RECURSIVE Tokens(_, _, _, _, _, _, _, _, _)
\* tokens <<ty, start, end>> (byte offsets) up to and including the first ERROR (ty 1) or EOF (ty 0).
\* i: chars consumed; start: char index where the pending (accumulated) text begins; fuel bounds nullable loops.
Tokens(Mac, Modes, chars, i, start, m, st, ngstop, fuel) ==
  IF fuel = 0 THEN <<<<-1, 0, 0>>>>      \* the definition itself does not terminate here (rule matching the empty string)
  ELSE
  LET rules == Modes[m].rules
      sc == ScanFrom(Mac, rules, chars, i, StartSet(rules), ngstop)
      j == sc[1]
      win == Winner(Mac, sc[2])
  IN IF j = i /\ i >= Len(chars) /\ win = 0
     THEN <<<<0, ByteOff(chars, start), ByteOff(chars, start)>>>>     \* EOF (pending accumulated text is reported by C11)
     ELSE IF win = 0 THEN <<<<1, ByteOff(chars, start), ByteOff(chars, start)>>>>
     ELSE LET rule == rules[win]
              ms == ApplyModeActs(rule.acts, 1, m, st)
              eff == Effect(rule)
          IN IF ~ms[3] THEN <<<<1, ByteOff(chars, start), ByteOff(chars, start)>>>>
             ELSE IF eff[1] = "emit"
                  THEN <<<<eff[2], ByteOff(chars, start), ByteOff(chars, j)>>>>
                       \o Tokens(Mac, Modes, chars, j, j, ms[1], ms[2], ngstop, fuel - 1)
             ELSE IF eff[1] = "discard"
                  THEN Tokens(Mac, Modes, chars, j, j, ms[1], ms[2], ngstop, fuel - 1)
             ELSE Tokens(Mac, Modes, chars, j, start, ms[1], ms[2], ngstop, fuel - 1)
=============================================================================
