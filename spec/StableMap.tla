----------------------------- MODULE StableMap -----------------------------
(***************************************************************************)
(* internal/base/stablemap: the insertion-ordered map every construction   *)
(* of lox iterates over (NFA / DFA transitions, partition groups, grouped  *)
(* ranges).  The byte-for-byte determinism of the generator (C13) rests on *)
(* its one promise: iteration order is the order of *first insertion* of   *)
(* the keys currently present, whatever Go's map iteration order is.       *)
(*                                                                         *)
(* State: m, a sequence of <<key, value>> with pairwise distinct keys.     *)
(* Actions: Put (overwrite in place, or append), Remove, Clear, and        *)
(* MultiMap.Add (append to the key's value list).  Observations after each *)
(* step: Keys(), Values(), Len(), Has / Get of every key of the universe.  *)
(***************************************************************************)
EXTENDS Integers, Sequences, FiniteSets

CONSTANTS Keys, Vals, MaxOps

VARIABLES m, n
vars == <<m, n>>

KeyAt(k) == {i \in DOMAIN m : m[i][1] = k}
Has(k) == KeyAt(k) # {}
Idx(k) == CHOOSE i \in KeyAt(k) : TRUE
Get(k) == IF Has(k) THEN m[Idx(k)][2] ELSE <<>>       \* values are sequences (one element for Map.Put); <<>> = zero value
KeySeq == [i \in DOMAIN m |-> m[i][1]]
ValSeq == [i \in DOMAIN m |-> m[i][2]]

RemoveAt(s, i) == SubSeq(s, 1, i - 1) \o SubSeq(s, i + 1, Len(s))

Init == m = <<>> /\ n = 0

Put(k, v) ==
  /\ n < MaxOps /\ n' = n + 1
  /\ m' = IF Has(k) THEN [m EXCEPT ![Idx(k)] = <<k, <<v>>>>] ELSE Append(m, <<k, <<v>>>>)

Remove(k) ==
  /\ n < MaxOps /\ n' = n + 1
  /\ m' = IF Has(k) THEN RemoveAt(m, Idx(k)) ELSE m

Clear ==
  /\ n < MaxOps /\ n' = n + 1
  /\ m' = <<>>

Next == (\E k \in Keys, v \in Vals : Put(k, v)) \/ (\E k \in Keys : Remove(k)) \/ Clear
Spec == Init /\ [][Next]_vars

\* the representation invariant and the promise
Distinct == \A i, j \in DOMAIN m : m[i][1] = m[j][1] => i = j
\* relative order of two keys that stay present never changes
OrderStable == [][\A a, b \in Keys :
                    (Has(a) /\ Has(b) /\ Has(a)' /\ Has(b)' /\ Idx(a) < Idx(b)) => Idx(a)' < Idx(b)']_vars
\* a key that was absent and is present now is the last one
NewIsLast == [][\A k \in Keys : (~Has(k) /\ Has(k)') => Idx(k)' = Len(m')]_vars
=============================================================================
