SPECIFICATION Spec
CONSTANT U = 5
INVARIANTS ExactUnion PiecesDisjoint FinalDisjoint Bounded
PROPERTIES EventExact Terminates
CHECK_DEADLOCK FALSE
