------------------------------ MODULE ParserRT ------------------------------
(***************************************************************************)
(* The generated LR parser runtime (internal/codegen/emit_parser.go        *)
(* `parserTemplate`), one action per branch of the template code, loaded   *)
(* with the tables and the `_act` switch that lox actually emitted         *)
(* (scraped from parser.gen.go; see lib/pcase.py scrape_parser).           *)
(*                                                                         *)
(* Cases[c] = [tables |-> [actions, goto, rules, termCounts, accept,       *)
(*                         emitBounds, shapes], alphabet |-> <<terminal>>] *)
(* shapes[p+1] = [k, mid, pk]: what `case p:` of _act does                 *)
(*   user(mid, pk)  call method mid with Peek(pk[1]), Peek(pk[2]), ...     *)
(*   single / singleF / append / appendF / pass / zero / zeroL             *)
(*                                                                         *)
(* Known deviations of the template from the intended behaviour are kept   *)
(* as written (they are what the code does): _recover's simulated reduce   *)
(* takes the goto from the *same* state without popping; a successful      *)
(* recovery may consume no input.                                          *)
(***************************************************************************)
EXTENDS Integers, Sequences, FiniteSets, Tables, CFG, PData

Track == MCfg.track    \* TRUE: carry abstract values, node ids and emitted events
MaxLen == MCfg.maxlen  \* free-input exploration: inputs up to this length

VARIABLES cid,        \* which case
          w,          \* the input read so far / the fixed input
          closed,     \* the lexer has returned EOF (or the input is fixed)
          stack, la, lasym, qla, qlasym,
          pos,        \* number of tokens handed out by the lexer
          pc,
          errsym, save, rstate,   \* locals of _recover
          nid,        \* next node id (number of action calls so far)
          rec,        \* _recover has been entered at least once (monotone flag)
          lost,       \* ghost: token indices of Error symbols popped by a recovery before being reduced
          out         \* events emitted by the last step (not a history)

vars == <<cid, w, closed, stack, la, lasym, qla, qlasym, pos, pc, errsym, save, rstate, nid, rec, lost, out>>

T == Cases[cid].tables
ERR == 1
EOFT == 0
Final == {"accept", "fail", "panic"}

TV(v) == IF Track THEN v ELSE NoV
\* y: the terminal yield below the item, <<kind, token index, terminal>> per leaf (a ghost of the
\* tracked model; the real stack holds only State, Sym, Bounds)
Item(st, sym, b, e, empty, y) ==
  IF Track THEN [st |-> st, sym |-> sym, b |-> b, e |-> e, empty |-> empty, y |-> y]
  ELSE [st |-> st, sym |-> NoV, b |-> 0, e |-> 0, empty |-> FALSE, y |-> <<>>]
RECURSIVE YieldOf(_)
YieldOf(items) == IF items = <<>> THEN <<>> ELSE Head(items).y \o YieldOf(Tail(items))
Top(stk) == stk[Len(stk)]
Peek(stk, n) == stk[Len(stk) - n]

\* _makeError: Expected = the keys of the action row of the current top state
MkErr(tok, st) == TV(ErrV(tok.i, tok.ty, RowKeys(T.actions, st)))

Init ==
  /\ cid \in 1..Len(Cases)
  /\ w = <<>> /\ closed = FALSE
  /\ stack = <<>> /\ la = -1 /\ lasym = NoV /\ qla = -1 /\ qlasym = NoV
  /\ pos = 0 /\ pc = "start"
  /\ errsym = NoV /\ save = <<>> /\ rstate = 0 /\ nid = 0 /\ rec = FALSE /\ lost = {} /\ out = <<>>

-----------------------------------------------------------------------------
(* _readToken, as a fragment of the enclosing step.  stk is the stack at   *)
(* the time of the call, pre the events the step emitted before the call.  *)

LexChoices ==
  IF qla # -1 THEN {-1}
  ELSE IF pos < Len(w) THEN {w[pos + 1]}
  ELSE IF closed \/ Len(w) >= MaxLen THEN {EOFT}
  ELSE {EOFT} \cup SeqRange(Cases[cid].alphabet)

ReadTok(stk, pre) ==
  \E ty \in LexChoices :
    IF qla # -1
    THEN /\ la' = qla /\ lasym' = qlasym /\ qla' = -1 /\ qlasym' = NoV
         /\ UNCHANGED <<pos, w, closed>>
         /\ out' = pre
    ELSE LET tok == TokV(pos, ty) IN
         /\ la' = ty
         /\ lasym' = IF ty = ERR THEN MkErr(tok, Top(stk).st) ELSE TV(tok)
         /\ pos' = IF ty = EOFT THEN pos ELSE pos + 1
         /\ w' = IF pos < Len(w) \/ ty = EOFT THEN w ELSE Append(w, ty)
         /\ closed' = (closed \/ (pos >= Len(w) /\ ty = EOFT))
         /\ UNCHANGED <<qla, qlasym>>
         /\ out' = IF Track THEN pre \o <<ReadEv(pos, ty, Top(stk).st, Len(stk))>> ELSE <<>>

NoRead == UNCHANGED <<la, lasym, qla, qlasym, pos, w, closed>>
RecLocals == <<errsym, save, rstate, rec, lost>>

-----------------------------------------------------------------------------
(* parse(): p._stack.Push(_item{}); p._readToken() *)
Start ==
  /\ pc = "start"
  /\ stack' = <<Item(0, NoV, 0, 0, FALSE, <<>>)>>
  /\ ReadTok(stack', <<>>)
  /\ pc' = "run"
  /\ UNCHANGED <<cid, nid>> /\ UNCHANGED RecLocals

Lookup == Find(T.actions, Top(stack).st, la)

\* a Go index-out-of-range in _Find
BadRow ==
  /\ pc = "run"
  /\ ~FindSafe(T.actions, Top(stack).st)
  /\ pc' = "panic" /\ out' = <<>>
  /\ UNCHANGED <<cid, stack, nid>> /\ NoRead /\ UNCHANGED RecLocals

\* action, ok := _Find(...); if !ok { if !p._recover() ...
NoAction ==
  /\ pc = "run"
  /\ FindSafe(T.actions, Top(stack).st)
  /\ ~Lookup[2]
  \* errSym, ok := p._lasym.(Error); if !ok { errSym = p._makeError() }
  /\ errsym' = IF la = ERR THEN lasym ELSE MkErr([i |-> lasym.i, ty |-> la], Top(stack).st)
  /\ pc' = "rec_skip" /\ out' = <<>> /\ rec' = TRUE
  /\ UNCHANGED <<cid, stack, nid, save, rstate, lost>> /\ NoRead

Accept ==
  /\ pc = "run"
  /\ FindSafe(T.actions, Top(stack).st)
  /\ Lookup[2] /\ Lookup[1] = T.accept
  /\ pc' = "accept"
  /\ out' = IF Track THEN <<RetEv(TRUE)>> ELSE <<>>
  /\ UNCHANGED <<cid, stack, nid>> /\ NoRead /\ UNCHANGED RecLocals

Shift ==
  /\ pc = "run"
  /\ FindSafe(T.actions, Top(stack).st)
  /\ Lookup[2] /\ Lookup[1] # T.accept /\ Lookup[1] >= 0
  /\ stack' = Append(stack, Item(Lookup[1], lasym, lasym.i, lasym.i, FALSE,
                                  <<<<IF la = ERR THEN "x" ELSE "t", lasym.i, la>>>>))
  /\ ReadTok(stack', <<>>)
  /\ UNCHANGED <<cid, pc, nid>> /\ UNCHANGED RecLocals

-----------------------------------------------------------------------------
(* reduce: res := p._act(prod); bounds; Pop; goto; Push *)

Shape(prod) == T.shapes[prod + 1]

\* [v, ev, n] : value, act events, number of node ids consumed
ActOf(prod) ==
  LET sh == Shape(prod)
      P(n) == Peek(stack, n).sym
  IN CASE sh.k = "user" ->
            LET args == [j \in 1..Len(sh.pk) |-> P(sh.pk[j])]
            IN [v |-> NodeV(nid, SumN(args)), ev |-> <<ActEv(sh.mid, args, nid)>>, n |-> 1]
       [] sh.k = "single" -> [v |-> ListV(<<P(sh.pk[1])>>), ev |-> <<>>, n |-> 0]
       [] sh.k = "append" -> [v |-> ListV(P(sh.pk[1]).l \o <<P(sh.pk[2])>>), ev |-> <<>>, n |-> 0]
       [] sh.k = "singleF" ->
            [v |-> IF Discards(P(sh.pk[1])) THEN ListV(<<>>) ELSE ListV(<<P(sh.pk[1])>>),
             ev |-> <<>>, n |-> 0]
       [] sh.k = "appendF" ->
            [v |-> IF Discards(P(sh.pk[2])) THEN P(sh.pk[1]) ELSE ListV(P(sh.pk[1]).l \o <<P(sh.pk[2])>>),
             ev |-> <<>>, n |-> 0]
       [] sh.k = "pass" -> [v |-> P(sh.pk[1]), ev |-> <<>>, n |-> 0]
       [] sh.k = "zero" -> [v |-> ZeroV, ev |-> <<>>, n |-> 0]
       [] sh.k = "zeroL" -> [v |-> ListV(<<>>), ev |-> <<>>, n |-> 0]

\* "Trim leading and trailing empty bounds."
BoundsOf(slice) ==
  LET ne == {k \in DOMAIN slice : ~slice[k].empty}
  IN IF ne = {} THEN [b |-> 0, e |-> 0, empty |-> TRUE]
     ELSE LET f == CHOOSE k \in ne : \A q \in ne : k <= q
              l == CHOOSE k \in ne : \A q \in ne : k >= q
          IN [b |-> slice[f].b, e |-> slice[l].e, empty |-> FALSE]

ReduceOk(prod) ==
  /\ prod >= 1 /\ prod < Len(T.rules)
  /\ At(T.termCounts, prod) < Len(stack)
  /\ Shape(prod).k \in {"user", "single", "append", "singleF", "appendF", "pass", "zero", "zeroL"}
  /\ \A j \in DOMAIN Shape(prod).pk : Shape(prod).pk[j] < Len(stack)

Reduce ==
  /\ pc = "run"
  /\ FindSafe(T.actions, Top(stack).st)
  /\ Lookup[2] /\ Lookup[1] < 0
  /\ LET prod == -Lookup[1] IN
     IF ~ReduceOk(prod)
     THEN /\ pc' = "panic" /\ out' = <<>> /\ UNCHANGED <<stack, nid>>
     ELSE LET tc == At(T.termCounts, prod)
              rule == At(T.rules, prod)
              a == IF Track THEN ActOf(prod) ELSE [v |-> NoV, ev |-> <<>>, n |-> 0]
              slice == SubSeq(stack, Len(stack) - tc + 1, Len(stack))
              bd == IF Track THEN BoundsOf(slice) ELSE [b |-> 0, e |-> 0, empty |-> FALSE]
              base == SubSeq(stack, 1, Len(stack) - tc)
              g == Find(T.goto, Top(base).st, rule)      \* nextState, _ := _Find(...)
          IN /\ stack' = Append(base, Item(g[1], a.v, bd.b, bd.e, bd.empty, IF Track THEN YieldOf(slice) ELSE <<>>))
             /\ nid' = nid + a.n
             /\ out' = IF Track
                       THEN a.ev \o (IF T.emitBounds /\ ~bd.empty
                                     THEN <<BoundsEv(a.v, bd.b, bd.e)>> ELSE <<>>)
                       ELSE <<>>
             /\ pc' = pc
  /\ UNCHANGED cid /\ NoRead /\ UNCHANGED RecLocals

-----------------------------------------------------------------------------
(* _recover(), one step per loop iteration *)

\* for p._la == ERROR { p._readToken() }
RecSkipErrors ==
  /\ pc = "rec_skip"
  /\ IF la = ERR
     THEN ReadTok(stack, <<>>) /\ pc' = pc
     ELSE NoRead /\ pc' = "rec_outer" /\ out' = <<>>
  /\ UNCHANGED <<cid, stack, nid>> /\ UNCHANGED RecLocals

\* save := p._stack
RecOuter ==
  /\ pc = "rec_outer"
  /\ save' = stack
  /\ pc' = "rec_pop" /\ out' = <<>>
  /\ UNCHANGED <<cid, stack, nid, errsym, rstate, rec, lost>> /\ NoRead

\* for len(p._stack) >= 1 { state := p._stack.Peek(0).State
RecPopTest ==
  /\ pc = "rec_pop"
  /\ IF Len(stack) >= 1
     THEN rstate' = Top(stack).st /\ pc' = "rec_inner"
     ELSE rstate' = rstate /\ pc' = "rec_end"
  /\ out' = <<>>
  /\ UNCHANGED <<cid, stack, nid, errsym, save, rec, lost>> /\ NoRead

\* one iteration of the innermost for
RecInnerNoErr ==        \* action, ok := _Find(_actions, state, ERROR); if !ok { break } ... Pop(1)
  /\ pc = "rec_inner"
  /\ ~Find(T.actions, rstate, ERR)[2]
  /\ stack' = SubSeq(stack, 1, Len(stack) - 1)
  /\ pc' = "rec_pop" /\ out' = <<>>
  /\ UNCHANGED <<cid, nid>> /\ NoRead /\ UNCHANGED RecLocals

RecInnerReduce ==       \* if action < 0 { state, _ = _Find(_goto, state, rule); continue }
  /\ pc = "rec_inner"
  /\ LET f == Find(T.actions, rstate, ERR) IN
     /\ f[2] /\ f[1] < 0
     /\ rstate' = Find(T.goto, rstate, At(T.rules, -f[1]))[1]
  /\ pc' = pc /\ out' = <<>>
  /\ UNCHANGED <<cid, stack, nid, errsym, save, rec, lost>> /\ NoRead

RecInnerReject ==       \* state = action; _, ok = _Find(_actions, state, la); if !ok { break } ... Pop(1)
  /\ pc = "rec_inner"
  /\ LET f == Find(T.actions, rstate, ERR) IN
     /\ f[2] /\ f[1] >= 0
     /\ ~Find(T.actions, f[1], la)[2]
  /\ stack' = SubSeq(stack, 1, Len(stack) - 1)
  /\ pc' = "rec_pop" /\ out' = <<>>
  /\ UNCHANGED <<cid, nid>> /\ NoRead /\ UNCHANGED RecLocals

RecInject ==            \* p._qla = p._la; ...; p._la = ERROR; p._lasym = errSym; return true
  /\ pc = "rec_inner"
  /\ LET f == Find(T.actions, rstate, ERR) IN
     /\ f[2] /\ f[1] >= 0
     /\ Find(T.actions, f[1], la)[2]
  /\ qla' = la /\ qlasym' = lasym /\ la' = ERR /\ lasym' = errsym
  /\ pc' = "run" /\ out' = <<>>
  /\ lost' = IF Track
             THEN lost \cup {save[k].sym.i : k \in {q \in (Len(stack) + 1)..Len(save) : save[q].sym.k = "x"}}
             ELSE lost
  /\ UNCHANGED <<cid, stack, nid, pos, w, closed, errsym, save, rstate, rec>>

RecFailEOF ==           \* if p._la == EOF { return false }
  /\ pc = "rec_end"
  /\ la = EOFT
  /\ pc' = "fail"
  /\ out' = IF Track THEN <<RetEv(FALSE)>> ELSE <<>>
  /\ UNCHANGED <<cid, stack, nid>> /\ NoRead /\ UNCHANGED RecLocals

RecDropToken ==         \* p._stack = save; p._readToken()
  /\ pc = "rec_end"
  /\ la # EOFT
  /\ stack' = save
  /\ ReadTok(stack', <<>>)
  /\ pc' = "rec_outer"
  /\ UNCHANGED <<cid, nid>> /\ UNCHANGED RecLocals

Next ==
  \/ Start \/ BadRow \/ NoAction \/ Accept \/ Shift \/ Reduce
  \/ RecSkipErrors \/ RecOuter \/ RecPopTest
  \/ RecInnerNoErr \/ RecInnerReduce \/ RecInnerReject \/ RecInject
  \/ RecFailEOF \/ RecDropToken

Spec == Init /\ [][Next]_vars /\ WF_vars(Next)

Terminates == <>(pc \in Final)
=============================================================================
