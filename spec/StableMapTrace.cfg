SPECIFICATION TSpec
CONSTANTS
  Keys = {1, 2, 3}
  Vals = {7, 8}
  MaxOps = 100
CHECK_DEADLOCK FALSE
