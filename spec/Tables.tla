------------------------------- MODULE Tables -------------------------------
(***************************************************************************)
(* How the generated runtimes read the row-compressed integer tables that  *)
(* lox emits (documented in the templates: emit_parser.go `_Find`,         *)
(* emit_lexer.go `PushRune`).  Data arrives 0-based, as in the Go code.    *)
(***************************************************************************)
EXTENDS Integers, Sequences, FiniteSets

At(t, i) == t[i + 1]
InIdx(t, i) == i >= 0 /\ i < Len(t)

RECURSIVE FindFrom(_, _, _, _)
FindFrom(t, i, end, x) ==
  IF i >= end THEN <<0, FALSE>>
  ELSE IF At(t, i) = x THEN <<At(t, i + 1), TRUE>>
  ELSE FindFrom(t, i + 2, end, x)

\* func _Find(table []int32, y, x int32) (int32, bool)
Find(t, y, x) ==
  LET i == At(t, y)
      n == At(t, i)
  IN FindFrom(t, i + 1, i + 1 + n, x)

\* Would _Find index outside the array (a Go panic)?
FindSafe(t, y) ==
  /\ InIdx(t, y)
  /\ InIdx(t, At(t, y))
  /\ At(t, At(t, y)) >= 0
  /\ At(t, y) + At(t, At(t, y)) < Len(t)

RECURSIVE KeysFrom(_, _, _)
KeysFrom(t, i, end) == IF i >= end THEN <<>> ELSE <<At(t, i)>> \o KeysFrom(t, i + 2, end)

\* The keys of row y in row order (what _makeError copies into Expected).
RowKeys(t, y) ==
  LET i == At(t, y)
      n == At(t, i)
  IN KeysFrom(t, i + 1, i + 1 + n)

RECURSIVE PairsFrom(_, _, _)
PairsFrom(t, i, end) ==
  IF i >= end THEN <<>> ELSE <<<<At(t, i), At(t, i + 1)>>>> \o PairsFrom(t, i + 2, end)

RowPairs(t, y) ==
  LET i == At(t, y)
      n == At(t, i)
  IN PairsFrom(t, i + 1, i + 1 + n)

Range(s) == {s[i] : i \in DOMAIN s}
=============================================================================
