----------------------------- MODULE LexProduct -----------------------------
(***************************************************************************)
(* All strings, not samples: the product of the decoded emitted table of a *)
(* mode with the reference derivative automaton of the mode's rules,       *)
(* explored by TLC over the interval alphabet cut at every range boundary  *)
(* of both sides.  Invariants, checked in every reachable product state:   *)
(*   Viability   the table has a transition on a  <=>  some rule can still *)
(*               match after a                                             *)
(*   Labels      the row's action list is the action list of the earliest  *)
(*               declared rule that matches exactly here (none otherwise)  *)
(*   NGFlag      the non-greedy flag is set exactly on accepting states    *)
(*               that sit at the exit of a non-greedy loop (as built)      *)
(* Jobs[j] = [c, m]: case and mode.  One line per product state that fails *)
(***************************************************************************)
EXTENDS LexSem, LexerRT, LData, TLC, Json

Jobs == JsonDeserialize("ljobs.json")

VARIABLES jid, q, RS

J == Jobs[jid]
C == LCases[J.c]
Mt == C.tables[J.m]
Rules == C.modes[J.m].rules
Mac == C.macros

\* cut points: both ends (and their neighbours) of every table range and every class/literal of the case
SeqRangeP(s) == {s[i] : i \in DOMAIN s}
Points == {p \in SeqRangeP(C.points) : p >= 0 /\ p <= MaxRune}

TabNext(st, a) ==
  LET row == RowOf(Mt, st) IN
  IF row.flags % 2 = 1 THEN -1 ELSE BSearch(Mt, At(Mt, st) + 3, 0, row.gotoN, a)

\* expected action pairs of a rule, as the row encodes them: mode actions in order, terminal action
ExpActs(rule) == EncActs(rule)


Judge(st, rs) ==
  LET row == RowOf(Mt, st)
      win == Winner(Mac, rs)
      labels == IF win = 0 THEN row.acts = <<>> ELSE row.acts = ExpActs(Rules[win])
      ngWant == win # 0 /\ \E x \in rs : SpineAtNGExit(Mac, x[2])
      ng == (row.flags % 2 = 1) = ngWant
  IN IF labels /\ ng THEN TRUE
     ELSE PrintT(ToJson([lp |-> "bad", j |-> jid - 1, q |-> st, labels |-> labels, ng |-> ng, win |-> win,
                         rowacts |-> row.acts, flags |-> row.flags]))

Init == jid \in 1..Len(Jobs) /\ q = 0 /\ RS = StartSet(C.modes[Jobs[jid].m].rules) /\ Judge(0, RS)

Next ==
  /\ jid' = jid
  /\ \E a \in Points :
       LET nq == TabNext(q, a)
           nr == IF RowOf(Mt, q).flags % 2 = 1 THEN {} ELSE Deriv(Mac, a, RS)
       IN IF nq = -1 /\ nr = {} THEN FALSE
          ELSE IF (nq = -1) # (nr = {})
          THEN /\ PrintT(ToJson([lp |-> "via", j |-> jid - 1, q |-> q, a |-> a, tab |-> nq, refalive |-> nr # {}]))
               /\ FALSE
          ELSE q' = nq /\ RS' = nr /\ Judge(nq, nr)

Spec == Init /\ [][Next]_<<jid, q, RS>>
=============================================================================
