------------------------------- MODULE GenDir -------------------------------
(***************************************************************************)
(* A project directory under repeated generation (C13, C14).               *)
(* State: which specification the user sources currently hold, and for     *)
(* each generated file what it contains -- classified against Out(s), the  *)
(* bytes a fresh-directory generation of s produces:                       *)
(*   "absent" | "junk" | "pkgx" (valid Go, other package clause) | s       *)
(* Actions: Gen(cwd, report) runs lox; SetSource(s) replaces the user's    *)
(* .lox and .go files by those of s; Delete(f); Corrupt(f, k).             *)
(* The property is the definition of Gen: on a valid source it ends with   *)
(* all three files = Out(src) and exit 0 *whatever preceded*; on an        *)
(* invalid .lox it fails before touching anything.                         *)
(***************************************************************************)
EXTENDS Integers, Sequences, FiniteSets, TLC

CONSTANTS Valid,        \* valid specifications (model values / strings)
          Invalid,      \* specifications whose .lox is rejected
          MaxSteps

Files == {"base", "lexer", "parser"}
Cwds == {"inside", "parent", "elsewhere"}
Kinds == {"junk", "pkgx"}
Specs == Valid \cup Invalid
Contents == {"absent", "junk", "pkgx"} \cup Valid

VARIABLES src, gen, last, steps
vars == <<src, gen, last, steps>>

Init ==
  /\ src \in Specs
  /\ gen = [f \in Files |-> "absent"]
  /\ last = [op |-> "init", exit |-> 0, report |-> "none"]
  /\ steps = 0

Gen(cwd, rep) ==
  /\ steps < MaxSteps
  /\ IF src \in Valid
     THEN /\ gen' = [f \in Files |-> src]
          /\ last' = [op |-> "gen", exit |-> 0, report |-> IF rep THEN src ELSE "none"]
     ELSE /\ gen' = gen
          /\ last' = [op |-> "gen", exit |-> 1, report |-> "none"]
  /\ src' = src /\ steps' = steps + 1

SetSource(s) ==
  /\ steps < MaxSteps /\ s # src
  /\ src' = s /\ gen' = gen /\ last' = [op |-> "set", exit |-> 0, report |-> "none"] /\ steps' = steps + 1

Delete(f) ==
  /\ steps < MaxSteps /\ gen[f] # "absent"
  /\ gen' = [gen EXCEPT ![f] = "absent"] /\ src' = src
  /\ last' = [op |-> "del", exit |-> 0, report |-> "none"] /\ steps' = steps + 1

Corrupt(f, k) ==
  /\ steps < MaxSteps /\ gen[f] # k
  /\ gen' = [gen EXCEPT ![f] = k] /\ src' = src
  /\ last' = [op |-> "corrupt", exit |-> 0, report |-> "none"] /\ steps' = steps + 1

\* stale output of another specification left in place of f
Stale(f, s) ==
  /\ steps < MaxSteps /\ gen[f] # s /\ s # src
  /\ gen' = [gen EXCEPT ![f] = s] /\ src' = src
  /\ last' = [op |-> "stale", exit |-> 0, report |-> "none"] /\ steps' = steps + 1

Next ==
  \/ \E c \in Cwds, r \in BOOLEAN : Gen(c, r)
  \/ \E s \in Specs : SetSource(s)
  \/ \E f \in Files : Delete(f)
  \/ \E f \in Files, k \in Kinds : Corrupt(f, k)
  \/ \E f \in Files, s \in Valid : Stale(f, s)

Spec == Init /\ [][Next]_vars

\* the property, as a consequence of the definition of Gen
AfterGen == (last.op = "gen" /\ src \in Valid) => (last.exit = 0 /\ \A f \in Files : gen[f] = src)
FixedPoint == [][(\E c \in Cwds, r \in BOOLEAN : Gen(c, r)) /\ src \in Valid /\ (\A f \in Files : gen[f] = src)
                 => gen' = gen]_vars
=============================================================================
