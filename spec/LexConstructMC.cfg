CONSTANT Det = FALSE
SPECIFICATION Spec
INVARIANT Confluence
PROPERTY Monotone
PROPERTY Terminates
CHECK_DEADLOCK FALSE
