SPECIFICATION LSpec
PROPERTY LTerminates
CHECK_DEADLOCK FALSE
