SPECIFICATION PSpec
INVARIANT Outcome
CHECK_DEADLOCK FALSE
