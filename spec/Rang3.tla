-------------------------------- MODULE Rang3 --------------------------------
(* Normalize as a state machine over the definitions of Rang3Defs (see there). *)
EXTENDS Rang3Defs

VARIABLES orig, heap, pieces, steps

Init ==
  /\ orig \in {<<r>> : r \in Ranges} \cup {<<r, s>> : r \in Ranges, s \in Ranges}
              \cup {<<r, s, t>> : r \in Ranges, s \in Ranges, t \in Ranges}
  /\ heap = {orig[k] : k \in DOMAIN orig}
  /\ pieces = [r \in {orig[k] : k \in DOMAIN orig} |-> {r}]
  /\ steps = 0

Step ==
  /\ Cardinality(heap) > 1
  /\ LET s == NormStep(heap) IN
     /\ heap' = s.heap
     /\ pieces' = RelabelAll(pieces, s.ev)
  /\ steps' = steps + 1
  /\ orig' = orig

Spec == Init /\ [][Step]_<<orig, heap, pieces, steps>> /\ WF_<<orig, heap, pieces, steps>>(Step)

\* every original range is the exact union of its current pieces
ExactUnion == \A r \in DOMAIN pieces : UNION {Pts(p) : p \in pieces[r]} = Pts(r)
\* pieces of one original range never overlap each other
PiecesDisjoint == \A r \in DOMAIN pieces : \A p \in pieces[r], q \in pieces[r] : p = q \/ Pts(p) \cap Pts(q) = {}
\* every event splits o exactly
EventExact == [][LET s == NormStep(heap) IN
                 \A k \in DOMAIN s.ev : /\ s.ev[k][1] # <<-1, -1>>
                                        /\ Pts(s.ev[k][1]) = Pts(s.ev[k][2]) \cup Pts(s.ev[k][3]) \cup Pts(s.ev[k][4])]_<<orig, heap, pieces, steps>>
\* at the end all pieces of all ranges are pairwise disjoint or equal
Done == Cardinality(heap) <= 1
FinalDisjoint == Done => \A r \in DOMAIN pieces, s \in DOMAIN pieces :
                           \A p \in pieces[r], q \in pieces[s] : p = q \/ Pts(p) \cap Pts(q) = {}
Bounded == steps <= 40
Terminates == <>Done
=============================================================================
