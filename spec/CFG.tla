-------------------------------- MODULE CFG --------------------------------
(***************************************************************************)
(* Textbook meaning of a lox parser grammar, independent of lox's code:    *)
(*   - DocDesugar: the rewriting of ?, *, +, *!, @list, @list? printed in  *)
(*     docs/markdown/parser_reference.md (x* = x+?, x+? = x+ | @empty is   *)
(*     inlined to x* = x+ | @empty -- same language, same values);         *)
(*   - Spans: least fixed point of "X derives w[i..j)";                    *)
(*   - InLang, the derivation tree (CHOOSE inside Spans), the post-order   *)
(*     action/bounds events with the documented sugar values;              *)
(*   - Viable / FirstBad: viable prefixes, first offending token.          *)
(* @error is an ordinary terminal (number 1) of the grammar G_E.           *)
(*                                                                         *)
(* A user grammar G (from cases.json):                                     *)
(*   [terms |-> <<name>>, rules |-> <<[name, prods |-> <<[terms |-> <<T>>, *)
(*    prec, assoc]>>]>>, start |-> r]                                      *)
(*   T = [k |-> "sym"|"opt"|"star"|"starF"|"plus"|"list"|"listopt"|"err",  *)
(*        t |-> 0|1, i |-> n, st, si]       (0-based indices, as in JSON)  *)
(* Symbols are uniform 6-tuples <<cls, kind, t, i, st, si>>:               *)
(*   cls 1 = terminal (i = terminal number: ERROR 1, user terminal k -> k+2)*)
(*   cls 0 = user rule i ; cls 2 = helper rule of the given kind           *)
(***************************************************************************)
EXTENDS Integers, Sequences, FiniteSets

KOpt == 1  KStar == 2  KStarF == 3  KPlus == 4  KPlusF == 5  KList == 6  KListOpt == 7

TermSym(n) == <<1, 0, 0, n, 0, 0>>
RuleSym(r) == <<0, 0, 0, r, 0, 0>>
Helper(kind, T) == <<2, kind, T.t, T.i, T.st, T.si>>
IsTerm(x) == x[1] = 1
TermNo(x) == x[4]
ErrTerm == TermSym(1)

\* the plain symbol a sugar term is built over
ElemSym(t, i) == IF t = 1 THEN TermSym(i + 2) ELSE RuleSym(i)
ElemOf(h) == ElemSym(h[3], h[4])
SepOf(h) == ElemSym(h[5], h[6])

SymOfTerm(T) ==
  CASE T.k = "err" -> ErrTerm
    [] T.k = "sym" -> ElemSym(T.t, T.i)
    [] T.k = "opt" -> Helper(KOpt, T)
    [] T.k = "star" -> Helper(KStar, T)
    [] T.k = "starF" -> Helper(KStarF, T)
    [] T.k = "plus" -> Helper(KPlus, T)
    [] T.k = "list" -> Helper(KList, T)
    [] T.k = "listopt" -> Helper(KListOpt, T)

\* helper rules a helper rule itself needs
Needs(h) ==
  CASE h[2] = KStar -> {<<2, KPlus, h[3], h[4], 0, 0>>}
    [] h[2] = KStarF -> {<<2, KPlusF, h[3], h[4], 0, 0>>}
    [] h[2] = KListOpt -> {<<2, KList, h[3], h[4], h[5], h[6]>>}
    [] OTHER -> {}

SeqRange(s) == {s[i] : i \in DOMAIN s}

UserProds(G) ==
  UNION {{[lhs |-> RuleSym(r - 1),
           rhs |-> [k \in DOMAIN G.rules[r].prods[p].terms |-> SymOfTerm(G.rules[r].prods[p].terms[k])],
           val |-> "user", r |-> r - 1, p |-> p - 1]
          : p \in DOMAIN G.rules[r].prods} : r \in DOMAIN G.rules}

HelperSyms(G) ==
  LET direct == {x \in UNION {SeqRange(pr.rhs) : pr \in UserProds(G)} : x[1] = 2}
  IN direct \cup UNION {Needs(h) : h \in direct}

\* parser_reference.md "Term Cardinality" / "List", with the value rule of each production
HelperProds(h) ==
  LET P(rhs, val) == [lhs |-> h, rhs |-> rhs, val |-> val, r |-> -1, p |-> -1]
      x == ElemOf(h)
  IN CASE h[2] = KOpt -> {P(<<x>>, "pass"), P(<<>>, "zero")}
       [] h[2] = KStar -> {P(<<<<2, KPlus, h[3], h[4], 0, 0>>>>, "pass"), P(<<>>, "zeroL")}
       [] h[2] = KStarF -> {P(<<<<2, KPlusF, h[3], h[4], 0, 0>>>>, "pass"), P(<<>>, "zeroL")}
       [] h[2] = KPlus -> {P(<<h, x>>, "append"), P(<<x>>, "single")}
       [] h[2] = KPlusF -> {P(<<h, x>>, "appendF"), P(<<x>>, "singleF")}
       [] h[2] = KList -> {P(<<h, SepOf(h), x>>, "appendL"), P(<<x>>, "single")}
       [] h[2] = KListOpt -> {P(<<<<2, KList, h[3], h[4], h[5], h[6]>>>>, "pass"), P(<<>>, "zeroL")}

\* the plain grammar: a set of productions and a start symbol
DocDesugar(G) ==
  [prods |-> UserProds(G) \cup UNION {HelperProds(h) : h \in HelperSyms(G)},
   start |-> RuleSym(G.start)]

NonTerms(D) == {pr.lhs : pr \in D.prods}
ProdsOf(D, X) == {pr \in D.prods : pr.lhs = X}

-----------------------------------------------------------------------------
(* Derivation spans: <<X, i, j>> iff X =>* w[i+1..j] *)

RECURSIVE Match(_, _, _, _, _, _)
Match(w, S, rhs, k, i, j) ==
  IF k > Len(rhs) THEN i = j
  ELSE LET x == rhs[k] IN
    IF IsTerm(x)
    THEN i < j /\ w[i + 1] = TermNo(x) /\ Match(w, S, rhs, k + 1, i + 1, j)
    ELSE \E m \in i..j : <<x, i, m>> \in S /\ Match(w, S, rhs, k + 1, m, j)

RECURSIVE SpanLFP(_, _, _)
SpanLFP(D, w, S) ==
  LET cand == {t \in {<<X, i, j>> : X \in NonTerms(D), i \in 0..Len(w), j \in 0..Len(w)} :
                 /\ t[2] <= t[3]
                 /\ t \notin S
                 /\ \E pr \in ProdsOf(D, t[1]) : Match(w, S, pr.rhs, 1, t[2], t[3])}
  IN IF cand = {} THEN S ELSE SpanLFP(D, w, S \cup cand)

Spans(D, w) == SpanLFP(D, w, {})

InLangS(D, w, S) == <<D.start, 0, Len(w)>> \in S
InLang(D, w) == InLangS(D, w, Spans(D, w))

-----------------------------------------------------------------------------
(* Productive symbols, viable prefixes, first offending token *)

RECURSIVE ProductiveLFP(_, _)
ProductiveLFP(D, P) ==
  LET more == {X \in NonTerms(D) \ P :
                 \E pr \in ProdsOf(D, X) : \A k \in DOMAIN pr.rhs : IsTerm(pr.rhs[k]) \/ pr.rhs[k] \in P}
  IN IF more = {} THEN P ELSE ProductiveLFP(D, P \cup more)
Productive(D) == ProductiveLFP(D, {})

RestProductive(Pr, rhs, k) == \A q \in k..Len(rhs) : IsTerm(rhs[q]) \/ rhs[q] \in Pr

\* PM: the suffix u[i+1..n] is a prefix of something rhs[k..] derives.
\* V is the set of <<X, i>> already known to satisfy this for a single symbol X.
RECURSIVE PM(_, _, _, _, _, _, _, _)
PM(u, n, S, V, Pr, rhs, k, i) ==
  IF i = n THEN RestProductive(Pr, rhs, k)
  ELSE IF k > Len(rhs) THEN FALSE
  ELSE LET x == rhs[k] IN
    IF IsTerm(x)
    THEN u[i + 1] = TermNo(x) /\ PM(u, n, S, V, Pr, rhs, k + 1, i + 1)
    ELSE \/ (<<x, i>> \in V /\ RestProductive(Pr, rhs, k + 1))
         \/ \E m \in i..n : <<x, i, m>> \in S /\ PM(u, n, S, V, Pr, rhs, k + 1, m)

RECURSIVE ViableLFP(_, _, _, _, _, _)
ViableLFP(D, u, n, S, Pr, V) ==
  LET more == {t \in {<<X, i>> : X \in NonTerms(D), i \in 0..n} :
                 /\ t \notin V
                 /\ \E pr \in ProdsOf(D, t[1]) : PM(u, n, S, V, Pr, pr.rhs, 1, t[2])}
  IN IF more = {} THEN V ELSE ViableLFP(D, u, n, S, Pr, V \cup more)

\* is w[1..n] a prefix of some sentence?  (S = Spans(D, w), Pr = Productive(D))
ViablePrefix(D, w, n, S, Pr) ==
  /\ D.start \in Pr
  /\ <<D.start, 0>> \in ViableLFP(D, w, n, {t \in S : t[3] <= n}, Pr, {})

\* 0-based index of the first token at which w stops being a prefix of any
\* sentence; Len(w) means "the end of input (EOF) is the offending token";
\* -1 means w is a sentence.
FirstBad(D, w) ==
  LET S == Spans(D, w)
      Pr == Productive(D)
      bad == {n \in 1..Len(w) : ~ViablePrefix(D, w, n, S, Pr)}
  IN IF bad # {} THEN (CHOOSE n \in bad : \A m \in bad : n <= m) - 1
     ELSE IF InLangS(D, w, S) THEN -1 ELSE Len(w)

-----------------------------------------------------------------------------
(* Abstract values (same shape as the harness's hk.Val rendered to JSON) *)

Val(k, i, ty, n, l, exp) == [k |-> k, i |-> i, ty |-> ty, n |-> n, l |-> l, exp |-> exp]
TokV(i, ty) == Val("t", i, ty, 1, <<>>, <<>>)
NodeV(id, n) == Val("n", id, 0, n, <<>>, <<>>)
ZeroV == Val("z", 0, 0, 0, <<>>, <<>>)
RECURSIVE SumN(_)
SumN(vs) == IF vs = <<>> THEN 0 ELSE Head(vs).n + SumN(Tail(vs))
ListV(vs) == Val("l", 0, 0, SumN(vs), vs, <<>>)
ErrV(i, ty, exp) == Val("x", i, ty, 1, <<>>, exp)
NoV == Val("", 0, 0, 0, <<>>, <<>>)

\* the harness's Discard(): tokens with an even terminal number, nodes with an even leaf count
Discards(v) == IF v.k = "t" THEN v.ty % 2 = 0 ELSE v.n % 2 = 0

Ev(e, i, ty, st, dep, m, args, ret, v, end, ok) ==
  [e |-> e, i |-> i, ty |-> ty, st |-> st, dep |-> dep, m |-> m, args |-> args,
   ret |-> ret, v |-> v, end |-> end, ok |-> ok]
ActEv(m, args, ret) == Ev("act", 0, 0, 0, 0, m, args, ret, NoV, 0, FALSE)
BoundsEv(v, b, e) == Ev("bounds", b, 0, 0, 0, 0, <<>>, 0, v, e, FALSE)
ReadEv(i, ty, st, dep) == Ev("read", i, ty, st, dep, 0, <<>>, 0, NoV, 0, FALSE)
RetEv(ok) == Ev("ret", 0, 0, 0, 0, 0, <<>>, 0, NoV, 0, ok)

-----------------------------------------------------------------------------
(* The derivation tree, evaluated bottom-up and left to right.             *)
(* Meth[r+1][p+1] is the harness's method id for user production p of rule r *)

RECURSIVE Cuts(_, _, _, _, _, _)
\* end position of every symbol of rhs[k..] when rhs[k..] derives w[i+1..j]
Cuts(w, S, rhs, k, i, j) ==
  IF k > Len(rhs) THEN <<>>
  ELSE LET x == rhs[k] IN
    IF IsTerm(x) THEN <<i + 1>> \o Cuts(w, S, rhs, k + 1, i + 1, j)
    ELSE LET m == CHOOSE m \in i..j : <<x, i, m>> \in S /\ Match(w, S, rhs, k + 1, m, j)
         IN <<m>> \o Cuts(w, S, rhs, k + 1, m, j)

\* number of different (production, cut) choices at a node: > 1 means ambiguity
RECURSIVE NCuts(_, _, _, _, _, _)
NCuts(w, S, rhs, k, i, j) ==
  IF k > Len(rhs) THEN IF i = j THEN 1 ELSE 0
  ELSE LET x == rhs[k] IN
    IF IsTerm(x) THEN IF i < j /\ w[i + 1] = TermNo(x) THEN NCuts(w, S, rhs, k + 1, i + 1, j) ELSE 0
    ELSE LET ms == {m \in i..j : <<x, i, m>> \in S}
             RECURSIVE Sum(_)
             Sum(Q) == IF Q = {} THEN 0 ELSE LET m == CHOOSE m \in Q : TRUE
                                              IN NCuts(w, S, rhs, k + 1, m, j) + Sum(Q \ {m})
         IN Sum(ms)

RECURSIVE EvalNT(_, _, _, _, _, _, _, _, _)
RECURSIVE EvalSeq(_, _, _, _, _, _, _, _, _, _)

\* returns [v, ev, nid, amb]
EvalSym(D, w, S, Meth, WantB, x, i, j, nid) ==
  IF IsTerm(x) THEN [v |-> TokV(i, w[i + 1]), ev |-> <<>>, nid |-> nid, amb |-> FALSE]
  ELSE EvalNT(D, w, S, Meth, WantB, x, i, j, nid)

EvalSeq(D, w, S, Meth, WantB, rhs, cuts, k, i, nid) ==
  IF k > Len(rhs) THEN [vs |-> <<>>, ev |-> <<>>, nid |-> nid, amb |-> FALSE]
  ELSE LET a == EvalSym(D, w, S, Meth, WantB, rhs[k], i, cuts[k], nid)
           r == EvalSeq(D, w, S, Meth, WantB, rhs, cuts, k + 1, cuts[k], a.nid)
       IN [vs |-> <<a.v>> \o r.vs, ev |-> a.ev \o r.ev, nid |-> r.nid, amb |-> a.amb \/ r.amb]

EvalNT(D, w, S, Meth, WantB, X, i, j, nid) ==
  LET cands == {pr \in ProdsOf(D, X) : Match(w, S, pr.rhs, 1, i, j)}
      pr == CHOOSE pr \in cands : TRUE
      cuts == Cuts(w, S, pr.rhs, 1, i, j)
      kids == EvalSeq(D, w, S, Meth, WantB, pr.rhs, cuts, 1, i, nid)
      amb == kids.amb \/ Cardinality(cands) > 1 \/ NCuts(w, S, pr.rhs, 1, i, j) > 1
      vs == kids.vs
      v == CASE pr.val = "user" -> NodeV(kids.nid, SumN(vs))
             [] pr.val = "pass" -> vs[1]
             [] pr.val = "zero" -> ZeroV
             [] pr.val = "zeroL" -> ListV(<<>>)
             [] pr.val = "single" -> ListV(<<vs[1]>>)
             [] pr.val = "append" -> ListV(vs[1].l \o <<vs[2]>>)
             [] pr.val = "appendL" -> ListV(vs[1].l \o <<vs[3]>>)
             [] pr.val = "singleF" -> IF Discards(vs[1]) THEN ListV(<<>>) ELSE ListV(<<vs[1]>>)
             [] pr.val = "appendF" -> IF Discards(vs[2]) THEN vs[1] ELSE ListV(vs[1].l \o <<vs[2]>>)
      act == IF pr.val = "user" THEN <<ActEv(Meth[pr.r + 1][pr.p + 1], vs, kids.nid)>> ELSE <<>>
      bnd == IF WantB /\ i < j THEN <<BoundsEv(v, i, j - 1)>> ELSE <<>>
  IN [v |-> v, ev |-> kids.ev \o act \o bnd,
      nid |-> IF pr.val = "user" THEN kids.nid + 1 ELSE kids.nid, amb |-> amb]

\* expected act/bounds events of a clean parse of sentence w
Expected(D, w, S, Meth, WantB) == EvalNT(D, w, S, Meth, WantB, D.start, 0, Len(w), 0)

\* drop consecutive duplicates of bounds events (pass-through helper reductions
\* repeat the call with the same value and span; the number of repeats is not specified)
RECURSIVE DedupB(_)
DedupB(evs) ==
  IF Len(evs) <= 1 THEN evs
  ELSE IF evs[1].e = "bounds" /\ evs[2] = evs[1] THEN DedupB(Tail(evs))
  ELSE <<evs[1]>> \o DedupB(Tail(evs))

RECURSIVE Filter(_, _)
Filter(evs, kinds) ==
  IF evs = <<>> THEN <<>>
  ELSE IF Head(evs).e \in kinds THEN <<Head(evs)>> \o Filter(Tail(evs), kinds)
  ELSE Filter(Tail(evs), kinds)
=============================================================================
