------------------------------ MODULE Numbering ------------------------------
(***************************************************************************)
(* C19: token constants.  A declaration layout is a sequence of items      *)
(*   "T"  a token in the default mode                                      *)
(*   "M"  a token that pushes a mode declared right there with two tokens  *)
(*   "X1" / "X2"  an @external line with one / two names                   *)
(*   "F"  a fragment that @emit-s the first declared token                 *)
(*   "N" / "S"  the rest goes to a second .lox file whose name sorts after *)
(*              / before the first one                                     *)
(* Names are <<kind, item index, k>>.  Expected numbering: EOF = 0,        *)
(* ERROR = 1, then every token and external name densely in declaration    *)
(* order, files in name order.  Phase "gen" prints the layouts; phase      *)
(* "check" compares what the three generated files say.                    *)
(***************************************************************************)
EXTENDS Integers, Sequences, FiniteSets, TLC, Json, Tables

Items == {"T", "M", "X1", "X2", "F", "N", "S"}
Phase == JsonDeserialize("num_phase.json")
Done == JsonDeserialize("num_done.json")

RECURSIVE Seqs(_, _)
Seqs(S, n) == IF n = 0 THEN {<<>>} ELSE {Append(s, x) : s \in Seqs(S, n - 1), x \in S}
Boundaries(l) == {i \in DOMAIN l : l[i] \in {"N", "S"}}
Good(l) == /\ Cardinality(Boundaries(l)) <= 1
           /\ l[1] \in {"T", "M"}                        \* "F" needs an earlier token; a file cannot be empty
           /\ l[Len(l)] \notin {"N", "S"}
Layouts == {l \in UNION {Seqs(Items, n) : n \in 1..Phase.maxlen} : Good(l)}

NamesOf(kind, i) ==
  CASE kind = "T" -> <<<<"T", i, 0>>>>
    [] kind = "M" -> <<<<"M", i, 0>>, <<"M", i, 1>>, <<"M", i, 2>>>>
    [] kind = "X1" -> <<<<"X", i, 1>>>>
    [] kind = "X2" -> <<<<"X", i, 1>>, <<"X", i, 2>>>>
    [] OTHER -> <<>>

RECURSIVE NamesFrom(_, _, _)
NamesFrom(l, i, j) == IF i > j THEN <<>> ELSE NamesOf(l[i], i) \o NamesFrom(l, i + 1, j)

\* declaration order with files in name order
Declared(l) ==
  LET b == Boundaries(l) IN
  IF b = {} THEN NamesFrom(l, 1, Len(l))
  ELSE LET p == CHOOSE p \in b : TRUE IN
       IF l[p] = "N" THEN NamesFrom(l, 1, p - 1) \o NamesFrom(l, p + 1, Len(l))
       ELSE NamesFrom(l, p + 1, Len(l)) \o NamesFrom(l, 1, p - 1)

EOFN == <<"EOF", 0, 0>>
ERRN == <<"ERROR", 0, 0>>
Expected(l) == <<EOFN, ERRN>> \o Declared(l)
NumberOf(l, name) == (CHOOSE k \in DOMAIN Expected(l) : Expected(l)[k] = name) - 1

\* the parser rule is  s = t* ; t = <the terminals in c.ref: all declared ones, or all but some that the parser never
\* mentions> : the start state's action row must be keyed by exactly their expected numbers (and EOF for the empty sentence)
StartKeys(T) == {RowKeys(T.actions, 0)[k] : k \in DOMAIN RowKeys(T.actions, 0)}

Check(c) ==
  LET l == c.layout
      exp == Expected(l)
      n == Len(exp)
      constsOk == /\ Len(c.consts) = n
                  /\ \A k \in 1..n : c.consts[k] = <<exp[k], k - 1>>
      strOk == \A k \in DOMAIN c.tostring :
                 LET v == c.tostring[k][1] IN
                 IF v >= 0 /\ v < n THEN c.tostring[k][2] = exp[v + 1] ELSE c.tostring[k][2] = <<"???", 0, 0>>
      lexOk == \A k \in DOMAIN c.lexed : c.lexed[k][2] = NumberOf(l, c.lexed[k][1])
      parOk == StartKeys(c.tables) = {0} \cup {NumberOf(l, c.ref[k]) : k \in DOMAIN c.ref}
  IN [constsOk |-> constsOk, strOk |-> strOk, lexOk |-> lexOk, parOk |-> parOk]

VARIABLES k, done
Init == k \in (IF Phase.phase = "gen" THEN {0} ELSE 1..Len(Done)) /\ done = FALSE
Next ==
  /\ ~done /\ done' = TRUE /\ k' = k
  /\ IF Phase.phase = "gen" THEN PrintT(ToJson([layouts |-> Layouts]))
     ELSE LET v == Check(Done[k]) IN
          IF v.constsOk /\ v.strOk /\ v.lexOk /\ v.parOk THEN TRUE
          ELSE PrintT(ToJson([num |-> "bad", k |-> k - 1, v |-> v, expected |-> Expected(Done[k].layout)]))
Spec == Init /\ [][Next]_<<k, done>>
=============================================================================
