------------------------------ MODULE TableObs ------------------------------
(***************************************************************************)
(* C10: the integer tables written to parser.gen.go / lexer.gen.go, read   *)
(* back by their documented row format, against what they were built from  *)
(* (lox's automata dumped in-process from the same working tree).          *)
(*  - WellFormed: index vector, row tiling, every index inside its table,  *)
(*    lexer range triples sorted / disjoint / within U+0000..U+10FFFF,     *)
(*    next states, action types and parameters in range                    *)
(*  - parser: decoded action and goto rows = the automaton's rows, state   *)
(*    by state; _rules / _termCounts = the grammar's productions           *)
(*  - lexer: decoded rows = the DFA's states (ranges, targets, flag,       *)
(*    action pairs), mode by mode                                          *)
(* TCases[c] = [id, haspar, pt (tables), g (grammar), states, haslex,      *)
(*              lt (tables), modes (dump), nterm]                          *)
(***************************************************************************)
EXTENDS Integers, Sequences, FiniteSets, TLC, Json, Tables, LexerRT

TCases == JsonDeserialize("tcases.json")

VARIABLES cid, done

SeqSet(s) == {s[i] : i \in DOMAIN s}
MaxRune == 1114111

-----------------------------------------------------------------------------
(* generic row-compressed table: index vector of length n, rows <<count, data...>> tiling the rest *)

RECURSIVE RowStarts(_, _, _)
\* the offsets at which rows start when the area after the index vector is read row after row
RowStarts(t, i, acc) ==
  IF i >= Len(t) THEN acc
  ELSE IF At(t, i) < 0 \/ i + At(t, i) >= Len(t) THEN acc \cup {-1}     \* a row runs past the end
  ELSE RowStarts(t, i + 1 + At(t, i), acc \cup {i})

IndexOk(t, n) ==
  /\ n >= 1 /\ n <= Len(t)
  /\ LET starts == RowStarts(t, n, {})
     IN /\ -1 \notin starts
        /\ \A q \in 0..(n - 1) : At(t, q) \in starts
        /\ starts \subseteq {At(t, q) : q \in 0..(n - 1)}       \* no orphan rows

\* ---- parser tables
PairsOk(t, n, keyMax, IsVal(_)) ==
  \A q \in 0..(n - 1) :
    LET i == At(t, q)
        cnt == At(t, i)
        ps == RowPairs(t, q)
    IN /\ cnt % 2 = 0
       /\ \A k \in DOMAIN ps : ps[k][1] >= 0 /\ ps[k][1] <= keyMax /\ IsVal(ps[k][2])
       /\ \A k1 \in DOMAIN ps, k2 \in DOMAIN ps : k1 # k2 => ps[k1][1] # ps[k2][1]

ParserWF(C) ==
  LET T == C.pt
      n == Len(C.states)
      np == Len(T.rules)
  IN /\ Len(T.termCounts) = np
     /\ IndexOk(T.actions, n) /\ IndexOk(T.goto, n)
     /\ PairsOk(T.actions, n, C.nterm - 1, LAMBDA v : v = T.accept \/ (v >= 0 /\ v < n) \/ (v < 0 /\ -v < np))
     /\ PairsOk(T.goto, n, Len(C.g.rules) - 1, LAMBDA v : v >= 0 /\ v < n)

\* the automaton's action row of state q as a set of <<terminal, value>>
AutoActs(C, q) ==
  {<<a.term, CASE a.kind = 0 -> a.arg [] a.kind = 1 -> -a.arg [] OTHER -> C.pt.accept>> : a \in SeqSet(C.states[q + 1].actions)}
AutoGotos(C, q) ==
  {<<tr[2], tr[3]>> : tr \in {tr \in SeqSet(C.states[q + 1].trans) : tr[1] = 0}}

ParserFaithful(C) ==
  LET T == C.pt
      n == Len(C.states)
  IN /\ \A q \in 0..(n - 1) :
          /\ SeqSet(RowPairs(T.actions, q)) = AutoActs(C, q)
          /\ Len(RowPairs(T.actions, q)) = Cardinality(AutoActs(C, q))
          /\ SeqSet(RowPairs(T.goto, q)) = AutoGotos(C, q)
          /\ Len(RowPairs(T.goto, q)) = Cardinality(AutoGotos(C, q))
     /\ \A p \in 0..(Len(T.rules) - 1) :
          /\ At(T.rules, p) = C.g.prods[p + 1].lhs
          /\ At(T.termCounts, p) = Len(C.g.prods[p + 1].rhs)
     /\ Len(T.rules) = Len(C.g.prods)

\* ---- lexer tables
LexRowOk(mt, q, n, nmodes, nterm) ==
  LET i0 == At(mt, q)
      cnt == At(mt, i0)
  IN /\ cnt >= 2
     /\ LET row == RowOf(mt, q) IN
        /\ row.flags \in {0, 1}
        /\ row.gotoN >= 0 /\ 2 + row.gotoN * 3 <= cnt /\ (cnt - 2 - row.gotoN * 3) % 2 = 0
        /\ \A k \in DOMAIN row.ranges :
             /\ row.ranges[k][1] >= 0 /\ row.ranges[k][1] <= row.ranges[k][2] /\ row.ranges[k][2] <= MaxRune
             /\ row.ranges[k][3] >= 0 /\ row.ranges[k][3] < n
             /\ (k > 1 => row.ranges[k - 1][2] < row.ranges[k][1])                \* sorted and disjoint
        /\ \A k \in DOMAIN row.acts :
             /\ row.acts[k][1] \in 1..5
             /\ (row.acts[k][1] = 1 => row.acts[k][2] >= 0 /\ row.acts[k][2] < nmodes)
             /\ (row.acts[k][1] = 3 => row.acts[k][2] >= 0 /\ row.acts[k][2] < nterm)
        /\ (row.flags = 1 => row.acts # <<>>)

LexerWF(C) ==
  /\ Len(C.lt) = Len(C.modes)
  /\ \A m \in DOMAIN C.lt :
       LET mt == C.lt[m]
           n == Len(C.modes[m].states)
       IN /\ IndexOk(mt, n)
          /\ \A q \in 0..(n - 1) : LexRowOk(mt, q, n, Len(C.modes), C.nterm)

ModeIndexOf(C, name) == (CHOOSE m \in DOMAIN C.modes : C.modes[m].name = name) - 1

LexerFaithful(C) ==
  \A m \in DOMAIN C.lt :
    LET mt == C.lt[m]
        ds == C.modes[m].states
    IN \A q \in 0..(Len(ds) - 1) :
         LET row == RowOf(mt, q)
             d == ds[q + 1]
         IN /\ row.ranges = d.trans                                   \* the dump lists transitions sorted by range start
            /\ (row.flags = 1) = (d.accept /\ d.ng)
            /\ Len(row.acts) = Len(d.actions)
            /\ \A k \in DOMAIN row.acts :
                 /\ row.acts[k][1] = d.actions[k][1]
                 /\ row.acts[k][2] = (CASE d.actions[k][1] = 1 -> ModeIndexOf(C, d.actmodes[k])
                                        [] d.actions[k][1] = 3 -> d.actions[k][2]
                                        [] OTHER -> 0)

Verdict(c) ==
  LET C == TCases[c]
      pwf == IF C.haspar THEN ParserWF(C) ELSE TRUE
      pf == IF C.haspar /\ pwf THEN ParserFaithful(C) ELSE TRUE
      lwf == IF C.haslex THEN LexerWF(C) ELSE TRUE
      lf == IF C.haslex /\ lwf THEN LexerFaithful(C) ELSE TRUE
  IN [tb |-> "v", c |-> c - 1, pwf |-> pwf, pf |-> pf, lwf |-> lwf, lf |-> lf]

Init == cid \in 1..Len(TCases) /\ done = FALSE
Next == ~done /\ done' = TRUE /\ cid' = cid /\ PrintT(ToJson(Verdict(cid)))
Spec == Init /\ [][Next]_<<cid, done>>
=============================================================================
