----------------------------- MODULE FrontLexer -----------------------------
(***************************************************************************)
(* The line-continuation wrapper between lox's own generated lexer and its *)
(* parser (internal/parser/lexer.go): a three-state machine per ReadToken  *)
(* call plus a one-token queue.                                            *)
(*   start:  EXTEND -> extend ;  NL -> nl ;  anything else is returned     *)
(*   extend: NL -> start (backslash-newline vanishes) ; anything else ->   *)
(*           an ERROR token (the offending token is dropped)               *)
(*   nl:     OR -> OR (a line starting with '|' continues the previous     *)
(*           one) ; NL -> nl (blank lines collapse) ; anything else -> NL  *)
(*           now, that token on the next call                              *)
(* A queued EOF is not replayed from the queue (its type is the queue's    *)
(* "empty" marker); the raw lexer simply returns EOF again.                *)
(* FCases[c] = [raw, wrapped]; K = [EOF, ERROR, NL, EXTEND, OR].           *)
(* Checked per case: the wrapper's recorded output is the model's output   *)
(* for the recorded raw stream; and, as properties of the model: no EXTEND *)
(* reaches the parser, no two NL in a row, no NL directly before OR.       *)
(***************************************************************************)
EXTENDS Integers, Sequences, FiniteSets, TLC, Json

FData == JsonDeserialize("frontlex.json")
FCases == FData.cases
K == FData.k

VARIABLES cid, done

RawAt(raw, i) == IF i <= Len(raw) THEN raw[i] ELSE K.EOF

RECURSIVE Call(_, _, _, _)
\* one ReadToken call: returns [tok, i, queued]
Call(raw, i, st, queued) ==
  LET t == RawAt(raw, i) IN
  CASE st = "start" -> IF t = K.EXTEND THEN Call(raw, i + 1, "extend", queued)
                       ELSE IF t = K.NL THEN Call(raw, i + 1, "nl", queued)
                       ELSE [tok |-> t, i |-> i + 1, queued |-> queued]
    [] st = "extend" -> IF t = K.NL THEN Call(raw, i + 1, "start", queued)
                        ELSE [tok |-> K.ERROR, i |-> i + 1, queued |-> queued]
    [] st = "nl" -> IF t = K.OR THEN [tok |-> t, i |-> i + 1, queued |-> queued]
                    ELSE IF t = K.NL THEN Call(raw, i + 1, "nl", queued)
                    ELSE [tok |-> K.NL, i |-> i + 1, queued |-> t]

RECURSIVE Run(_, _, _, _)
\* the sequence of tokens handed to the parser, up to and including the first EOF
Run(raw, i, queued, fuel) ==
  IF fuel = 0 THEN <<>>
  ELSE IF queued # K.EOF
       THEN <<queued>> \o Run(raw, i, K.EOF, fuel - 1)          \* replay the queued token (never EOF itself)
  ELSE LET c == Call(raw, i, "start", K.EOF)
       IN IF c.tok = K.EOF THEN <<K.EOF>> ELSE <<c.tok>> \o Run(raw, c.i, c.queued, fuel - 1)

Check(c) ==
  LET C == FCases[c]
      model == Run(C.raw, 1, K.EOF, 4 * Len(C.raw) + 16)
      same == model = C.wrapped
      noExtend == \A k \in DOMAIN model : model[k] # K.EXTEND
      noNLNL == \A k \in 1..(Len(model) - 1) : ~(model[k] = K.NL /\ model[k + 1] = K.NL)
      noNLOR == \A k \in 1..(Len(model) - 1) : ~(model[k] = K.NL /\ model[k + 1] = K.OR)
  IN IF same /\ noExtend /\ noNLNL /\ noNLOR THEN TRUE
     ELSE PrintT(ToJson([fl |-> "bad", c |-> c - 1, same |-> same, noExtend |-> noExtend, noNLNL |-> noNLNL,
                         noNLOR |-> noNLOR, model |-> model]))

Init == cid \in 1..Len(FCases) /\ done = FALSE
Next == ~done /\ done' = TRUE /\ cid' = cid /\ Check(cid)
Spec == Init /\ [][Next]_<<cid, done>>
=============================================================================
