------------------------------ MODULE LALRObs ------------------------------
(***************************************************************************)
(* C04 / C05(table part): lox's LALR automaton, dumped in-process from the *)
(* working tree (harness/cmd/dump), against the reference construction.    *)
(* Cases[c] = [id, g, states, conflicts, cli]                               *)
(*   states[q+1] = [items |-> <<<<p,d,a>>>>, actions |-> <<[term, kind,    *)
(*                  arg, prods]>>, trans |-> <<<<t, i, target>>>>]         *)
(*   cli = "ok" | "conflicts" | "other"   (what the lox command reported)  *)
(* One JSON line per case.                                                 *)
(***************************************************************************)
EXTENDS Integers, Sequences, FiniteSets, TLC, Json, LALR

Cases == JsonDeserialize("lalr_cases.json")

VARIABLES cid, done

SeqSet(s) == {s[i] : i \in DOMAIN s}

\* phi: pairs <<q, M>> reached by walking both automata from their start states
RECURSIVE Walk(_, _, _, _, _)
Walk(K, Ms, St, phi, frontier) ==
  LET succ == UNION {{<<tr[3], MGoto(K, Ms, pr[2], [t |-> tr[1], i |-> tr[2]])>> :
                        tr \in {tr \in SeqSet(St[pr[1] + 1].trans) : [t |-> tr[1], i |-> tr[2]] \in NextSyms(K, pr[2])}}
                     : pr \in frontier}
      fresh == succ \ phi
  IN IF fresh = {} THEN phi ELSE Walk(K, Ms, St, phi \cup fresh, fresh)

LoxActs(St, q, a) == {ac \in SeqSet(St[q + 1].actions) : ac.term = a}

Verdict(c) ==
  LET Cs == Cases[c]
      K == Ctx(Cs.g)
      C == LR1(K)
      Ms == LALRStates(C)
      must == MustConflict(K, Ms)
      may == MayConflict(K, Ms)
      St == Cs.states
      M0 == CHOOSE M \in Ms : <<0, 0, 0>> \in M
      phi == IF Len(St) = 0 THEN {} ELSE Walk(K, Ms, St, {<<0, M0>>}, {<<0, M0>>})
      qs == {pr[1] : pr \in phi}
      functional == \A x \in phi, y \in phi : x[1] = y[1] => x[2] = y[2]
      injective == \A x \in phi, y \in phi : x[2] = y[2] => x[1] = y[1]
      onto == {pr[2] : pr \in phi} = Ms /\ qs = 0..(Len(St) - 1)
      \* transitions lox has that the reference does not, and vice versa
      badtrans == {<<pr[1], tr>> : pr \in phi, tr \in UNION {SeqSet(St[q + 1].trans) : q \in qs}}
                  \cap {x \in {<<pr[1], tr>> : pr \in phi, tr \in UNION {SeqSet(St[q + 1].trans) : q \in qs}} :
                          /\ x[2] \in SeqSet(St[x[1] + 1].trans)
                          /\ [t |-> x[2][1], i |-> x[2][2]] \notin NextSyms(K, (CHOOSE pr \in phi : pr[1] = x[1])[2])}
      misstrans == {<<pr[1], x>> : pr \in phi, x \in UNION {NextSyms(K, M) : M \in Ms}}
                   \cap {y \in {<<pr[1], x>> : pr \in phi, x \in UNION {NextSyms(K, M) : M \in Ms}} :
                           /\ y[2] \in NextSyms(K, (CHOOSE pr \in phi : pr[1] = y[1])[2])
                           /\ ~\E tr \in SeqSet(St[y[1] + 1].trans) : tr[1] = y[2].t /\ tr[2] = y[2].i}
      baditems == {pr[1] : pr \in {pr \in phi : SeqSet(St[pr[1] + 1].items) # pr[2]}}
      \* action cells (only meaningful where lox left exactly one action)
      cellbad == {x \in {<<pr[1], a>> : pr \in phi, a \in Terminals(K)} :
                   LET M == (CHOOSE pr \in phi : pr[1] = x[1])[2]
                       allowed == Cell(K, M, x[2])
                       la == LoxActs(St, x[1], x[2])
                   IN IF la = {} THEN <<"none">> \notin allowed
                      ELSE IF Cardinality(la) > 1 THEN <<"conflict">> \notin allowed
                      ELSE LET ac == CHOOSE ac \in la : TRUE IN
                           CASE ac.kind = 0 -> <<"shift">> \notin allowed
                             [] ac.kind = 1 -> <<"reduce", ac.arg>> \notin allowed
                             [] ac.kind = 2 -> <<"accept">> \notin allowed}
      celldesc == {[q |-> x[1], a |-> x[2],
                    lox |-> {<<ac.kind, ac.arg>> : ac \in LoxActs(St, x[1], x[2])},
                    ref |-> Cell(K, (CHOOSE pr \in phi : pr[1] = x[1])[2], x[2]),
                    sp |-> ShiftProds(K, (CHOOSE pr \in phi : pr[1] = x[1])[2], x[2])] : x \in cellbad}
      verdictOk == IF Cs.conflicts THEN may ELSE ~must
      cliOk == CASE Cs.cli = "conflicts" -> may
                 [] Cs.cli = "ok" -> ~must
                 [] Cs.cli = "skip" -> TRUE          \* the command was not run for this case (in-process verdict only)
                 [] OTHER -> FALSE
  IN [lalr |-> "v", c |-> c - 1, must |-> must, may |-> may, verdictOk |-> verdictOk, cliOk |-> cliOk,
      nlr1 |-> Cardinality(C), nlalr |-> Cardinality(Ms), nlox |-> Len(St),
      functional |-> functional, injective |-> injective, onto |-> onto,
      badtrans |-> badtrans, misstrans |-> misstrans, baditems |-> baditems, cells |-> celldesc]

Init == cid \in 1..Len(Cases) /\ done = FALSE
Next == ~done /\ done' = TRUE /\ cid' = cid /\ PrintT(ToJson(Verdict(cid)))
Spec == Init /\ [][Next]_<<cid, done>>
=============================================================================
