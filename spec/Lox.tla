-------------------------------- MODULE Lox --------------------------------
(***************************************************************************)
(* The whole generated program: text -> reference driver (simplelexer      *)
(* ReadToken) over the generated state machine (LexerRT!PushRune loaded    *)
(* with the emitted _lexerModeN tables) -> generated LR parser (ParserRT   *)
(* loaded with the emitted parser tables).  The parser pulls tokens on     *)
(* demand, exactly where the template calls p._lex.ReadToken(); every such *)
(* pull runs the driver loop to its next token, ERROR (skip to the end of  *)
(* the line, Reset) or EOF.  The token *numbers* the lexer tables emit are *)
(* used as they are as keys of the parser's action rows: nothing in this   *)
(* module translates between the two tables (C19's last clause).           *)
(*                                                                         *)
(* Cases[c] = a ParserRT case (g, tables, alphabet, ...) extended by       *)
(*   ltables  the emitted lexer tables, one per mode                       *)
(*   lmodes, lmacros  the rules in LexSem form (definition side)           *)
(*   chars    the representative runes texts are built from                *)
(*   maxchars bound on the length of explored texts                        *)
(* Runs[r]  = [c, chars, reads, toks, ok, clean, panic, budget] : one real *)
(*   run of the compiled package on one text                               *)
(*                                                                         *)
(* Three edges, as for the two halves alone (DESIGN 8.1):                  *)
(*   MC     model vs definition, every text up to the bound                *)
(*   Obs    real run vs definition (decides)                               *)
(*   Trace  real run vs model (the tokens the parser pulled, the verdict)  *)
(* Definition: the token types LexSem!Tokens assigns to the text, then     *)
(* membership of that type sequence in L(G) (CFG!InLang, @error excluded). *)
(***************************************************************************)
EXTENDS ParserRT, LexerRT, LexSem, TLC

VARIABLES text,      \* the input, a sequence of <<rune, width>>
          lx,        \* driver and state machine: [sm, ci, boff, start]
          mode,      \* "mc": text chosen freely ; "run": text of Runs[rid]
          rid,
          judged
lvars == <<vars, text, lx, mode, rid, judged>>

LC == Cases[cid]
CharAt(k) == IF k < Len(text) THEN text[k + 1][1] ELSE -1
WidthAt(k) == IF k < Len(text) THEN text[k + 1][2] ELSE 0
RECURSIVE SkipLine(_)
SkipLine(k) == IF CharAt(k) # 10 /\ CharAt(k) # -1 THEN SkipLine(k + 1) ELSE (IF k < Len(text) THEN k + 1 ELSE k)
RECURSIVE Bytes(_, _)
Bytes(a, b) == IF a >= b THEN 0 ELSE WidthAt(a) + Bytes(a + 1, b)

LxInit == [sm |-> InitSM, ci |-> 0, boff |-> 0, start |-> -1]

RECURSIVE DrvRead(_, _)
\* simplelexer.ReadToken: PushRune until the machine accepts, reports EOF or fails.
\* Returns [ty, lx]; ty = -9 when the fuel runs out (a lexer that does not reach its next token)
DrvRead(L, fuel) ==
  IF fuel = 0 THEN [ty |-> -9, lx |-> L]
  ELSE
  LET ch == CharAt(L.ci)
      st1 == IF L.start = -1 THEN L.boff ELSE L.start
      res == PushRune(LC.ltables, L.sm, ch)
      sm1 == [state |-> res.state, mode |-> res.mode, stack |-> res.stack, token |-> res.token]
  IN CASE res.code = 0 ->     \* consume
            DrvRead([sm |-> sm1, ci |-> (IF L.ci < Len(text) THEN L.ci + 1 ELSE L.ci),
                     boff |-> L.boff + WidthAt(L.ci), start |-> st1], fuel - 1)
       [] res.code = 3 ->     \* accumulate, try again
            DrvRead([L EXCEPT !.sm = sm1, !.start = st1], fuel - 1)
       [] res.code = 2 ->     \* discard
            DrvRead([L EXCEPT !.sm = sm1, !.start = -1], fuel - 1)
       [] res.code = 1 ->     \* token
            [ty |-> res.token, lx |-> [L EXCEPT !.sm = sm1, !.start = -1]]
       [] res.code = 4 ->     \* EOF
            [ty |-> 0, lx |-> [L EXCEPT !.sm = sm1]]
       [] OTHER ->            \* error: ERROR token, skip the rest of the line, Reset
            LET k2 == SkipLine(L.ci)
            IN [ty |-> 1, lx |-> [sm |-> ResetSM(sm1), ci |-> k2, boff |-> L.boff + Bytes(L.ci, k2), start |-> -1]]

Fuel == 8 * Len(text) + 64

\* the texts explored: every sequence over the case's runes up to its bound
TextsOf(c) == UNION {[1..n -> {<<Cases[c].chars[k], 1>> : k \in DOMAIN Cases[c].chars}] : n \in 0..Cases[c].maxchars}

LInit ==
  /\ Init
  /\ lx = LxInit /\ judged = FALSE
  /\ \/ /\ mode = "mc" /\ MCfg.explore /\ rid = 0 /\ text \in TextsOf(cid)
     \/ /\ mode = "run" /\ rid \in 1..Len(Runs) /\ cid = Runs[rid].c /\ text = Runs[rid].chars

\* One parser step; when that step pulled a token from the lexer (ParserRT appended it to w, or closed the
\* input at EOF) the token must be the one the driver produces next, and the driver moves on.
LStep ==
  /\ Next
  /\ UNCHANGED <<text, mode, rid, judged>>
  /\ IF pos' = pos + 1
     THEN LET r == DrvRead(lx, Fuel) IN r.ty > 0 /\ w'[pos'] = r.ty /\ lx' = r.lx
     ELSE IF closed' /\ ~closed
     THEN LET r == DrvRead(lx, Fuel) IN r.ty = 0 /\ lx' = r.lx
     ELSE lx' = lx

\* the lexer does not reach its next token (rules matching the empty string): its own terminal state
LexHang ==
  /\ pc \notin Final /\ pc # "lexhang"
  /\ DrvRead(lx, Fuel).ty = -9
  /\ pc' = "lexhang"
  /\ UNCHANGED <<cid, w, closed, stack, la, lasym, qla, qlasym, pos, errsym, save, rstate, nid, rec, lost, out, text, lx, mode, rid, judged>>

-----------------------------------------------------------------------------
(* the definition *)

DefToks == Tokens(LC.lmacros, LC.lmodes, text, 0, 0, 1, <<>>, FALSE, 4 * Len(text) + 8)
DefTypes == [k \in DOMAIN DefToks |-> DefToks[k][1]]
DefEndsEOF == DefTypes[Len(DefTypes)] = 0
DefWords == SubSeq(DefTypes, 1, Len(DefTypes) - 1)          \* without the closing EOF / ERROR
Ds == [c \in 1..Len(Cases) |-> DocDesugar(Cases[c].g)]
Sentence == DefEndsEOF /\ InLang(Ds[cid], DefWords)
\* accepted without running an @error production: no recovery, and no lexer ERROR token shifted as @error
CleanAccept == pc = "accept" /\ ~rec /\ \A k \in DOMAIN w : w[k] # 1

\* what the parser pulled so far agrees with the definition on the stretch before the first lexical error
Common == /\ LET n == IF Len(w) < Len(DefWords) THEN Len(w) ELSE Len(DefWords) IN \A k \in 1..n : w[k] = DefWords[k]
          /\ (DefEndsEOF \/ Len(w) <= Len(DefWords) \/ w[Len(DefWords) + 1] = 1)

Judge ==
  /\ pc \in Final \cup {"lexhang"} /\ ~judged
  /\ judged' = TRUE
  /\ UNCHANGED <<vars, text, lx, mode, rid>>
  /\ IF mode = "mc"
     THEN LET s == Sentence
              good == (CleanAccept <=> s) /\ pc \notin {"panic", "lexhang"} /\ Common
          IN IF good THEN TRUE
             ELSE PrintT(ToJson([lox |-> "mc-bad", c |-> cid - 1, text |-> [k \in DOMAIN text |-> text[k][1]], pc |-> pc,
                                 rec |-> rec, w |-> w, def |-> DefTypes, sentence |-> s]))
     ELSE LET R == Runs[rid]
              s == Sentence
              \* Obs: the real program against the definition
              obsok == ((R.ok /\ R.clean) <=> s) /\ ~R.panic /\ ~R.budget
                       /\ LET n == IF Len(R.reads) < Len(DefTypes) THEN Len(R.reads) ELSE Len(DefTypes)
                          IN \A k \in 1..n : R.reads[k] = DefTypes[k]
              \* Trace: the real program against the model (tokens pulled, verdict)
              modelreads == IF closed THEN Append(w, 0) ELSE w
              trok == R.reads = modelreads /\ (R.ok = (pc = "accept")) /\ pc \notin {"panic", "lexhang"}
          IN /\ PrintT(ToJson([lox |-> "judged", r |-> rid - 1]))
             /\ (IF obsok THEN TRUE
                 ELSE PrintT(ToJson([lox |-> "obs-bad", r |-> rid - 1, c |-> cid - 1, reads |-> R.reads, ok |-> R.ok, clean |-> R.clean,
                                     def |-> DefTypes, sentence |-> s])))
             /\ (IF trok THEN TRUE
                 ELSE PrintT(ToJson([lox |-> "trace-bad", r |-> rid - 1, c |-> cid - 1, reads |-> R.reads, ok |-> R.ok,
                                     model |-> modelreads, pc |-> pc])))

LNext == LStep \/ LexHang \/ Judge
LSpec == LInit /\ [][LNext]_lvars /\ WF_lvars(LNext)
LTerminates == <>(pc \in Final \cup {"lexhang"})
=============================================================================
