------------------------------- MODULE PData -------------------------------
(* Data of one check run, written by the harness next to the specification. *)
(* Zero-arity constant definitions: TLC evaluates each of them once.        *)
EXTENDS Json
Cases == JsonDeserialize("cases.json")
Runs == JsonDeserialize("runs.json")
MCfg == JsonDeserialize("mcfg.json")   \* [track, maxlen]
=============================================================================
