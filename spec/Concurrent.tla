------------------------------ MODULE Concurrent ------------------------------
(***************************************************************************)
(* C18: N instances of generated parsers / lexers in one program.          *)
(* The design claim: all mutable state lives in the instance; the package  *)
(* level holds only tables that are never written.  An instance is a       *)
(* deterministic sequential program whose only synchronisation points with *)
(* the outside world are its callbacks (ReadToken, actions); between two   *)
(* of them it touches its own state and reads the tables.                  *)
(*                                                                         *)
(* Model: pc[i] counts the gate points (lexer reads) instance i has        *)
(* passed, Gates[i] is how many its sequential run has.  Tables is the     *)
(* shared read-only state.  Every behaviour is a schedule; TLC enumerates  *)
(* all of them and prints each complete schedule; the harness replays each *)
(* one on real goroutines (a blocking gate inside ReadToken) and every     *)
(* instance's recorded trace must equal its sequential trace.              *)
(***************************************************************************)
EXTENDS Integers, Sequences, FiniteSets, TLC, Json

Par == JsonDeserialize("conc_par.json")      \* [gates |-> <<k1, k2, ...>>]
Gates == Par.gates
Inst == DOMAIN Gates

VARIABLES pc, tables, sched
vars == <<pc, tables, sched>>

Init == pc = [i \in Inst |-> 0] /\ tables = "tables" /\ sched = <<>>

Step(i) ==
  /\ pc[i] < Gates[i]
  /\ pc' = [pc EXCEPT ![i] = pc[i] + 1]
  /\ tables' = tables                     \* reading the tables is the only shared access
  /\ sched' = Append(sched, i)

Finished == \A i \in Inst : pc[i] = Gates[i]

Emit == /\ Finished /\ sched # <<>>
        /\ PrintT(ToJson([sched |-> sched]))
        /\ UNCHANGED <<pc, tables>> /\ sched' = <<>>

Next == (\E i \in Inst : Step(i)) \/ Emit
Spec == Init /\ [][Next]_vars

TablesNeverWritten == [][tables' = tables]_vars
\* an instance's progress depends on its own steps only
Independent == [][\A i \in Inst : pc'[i] # pc[i] => (pc'[i] = pc[i] + 1 /\ \A j \in Inst \ {i} : pc'[j] = pc[j])]_vars
=============================================================================
