----------------------------- MODULE LexAccount -----------------------------
(***************************************************************************)
(* C11, model-independent part: the accounting of input characters is      *)
(* computed from what was *observed* at the state machine's interface      *)
(* (the rune handed to every PushRune call and the code it returned) with  *)
(* the reference driver's reactions, without consulting the emitted tables *)
(* or LexerRT.  It therefore still judges a run that is no longer a        *)
(* behaviour of the model.  Segments: <<kind, start, end>> in bytes with   *)
(* kind tok / disc / err / lost (text pending when EOF was returned).      *)
(* Partition: the segments are consecutive from 0 and cover the input.     *)
(***************************************************************************)
EXTENDS LexSem, TLC, Json, LData

VARIABLES rid, done

RECURSIVE Walk(_, _, _, _, _, _, _)
\* k: index of the next step; ci: chars consumed; boff: byte offset; start: -1 or the byte offset where pending text begins
Walk(chars, steps, k, ci, boff, start, segs) ==
  LET CharAt(i) == IF i < Len(chars) THEN chars[i + 1][1] ELSE -1
      WidthAt(i) == IF i < Len(chars) THEN chars[i + 1][2] ELSE 0
  IN IF k > Len(steps) THEN [segs |-> segs, end |-> "truncated", boff |-> boff, start |-> start]
     ELSE LET s == steps[k]
              st1 == IF start = -1 THEN boff ELSE start
          IN IF s[1] = -2 THEN Walk(chars, steps, k + 1, ci, boff, start, segs)              \* Reset marker
             ELSE IF s[1] # CharAt(ci) THEN [segs |-> segs, end |-> "inconsistent", boff |-> boff, start |-> start]
             ELSE CASE s[2] = 0 -> Walk(chars, steps, k + 1, IF ci < Len(chars) THEN ci + 1 ELSE ci, boff + WidthAt(ci), st1, segs)
                    [] s[2] = 3 -> Walk(chars, steps, k + 1, ci, boff, st1, segs)
                    [] s[2] = 2 -> Walk(chars, steps, k + 1, ci, boff, -1, Append(segs, <<"disc", st1, boff>>))
                    [] s[2] = 1 -> Walk(chars, steps, k + 1, ci, boff, -1, Append(segs, <<"tok", st1, boff>>))
                    [] s[2] = 4 -> [segs |-> IF st1 < boff THEN Append(segs, <<"lost", st1, boff>>) ELSE segs,
                                    end |-> "eof", boff |-> boff, start |-> st1]
                    [] OTHER ->   \* error: skip to the next line
                         LET RECURSIVE Skip(_)
                             Skip(i) == IF CharAt(i) # 10 /\ CharAt(i) # -1 THEN Skip(i + 1) ELSE (IF i < Len(chars) THEN i + 1 ELSE i)
                             RECURSIVE Bytes(_, _)
                             Bytes(a, b) == IF a >= b THEN 0 ELSE WidthAt(a) + Bytes(a + 1, b)
                             k2 == Skip(ci)
                         IN Walk(chars, steps, k + 1, k2, boff + Bytes(ci, k2), -1, Append(segs, <<"err", st1, boff + Bytes(ci, k2)>>))

RECURSIVE Consecutive(_, _, _)
Consecutive(segs, k, pos) ==
  IF k > Len(segs) THEN pos
  ELSE IF segs[k][2] # pos \/ segs[k][3] < segs[k][2] THEN -1
  ELSE Consecutive(segs, k + 1, segs[k][3])

RECURSIVE NBytes(_, _)
NBytes(chars, k) == IF k > Len(chars) THEN 0 ELSE chars[k][2] + NBytes(chars, k + 1)

-----------------------------------------------------------------------------
(* Every token / discard segment must consist of text its rule can match:  *)
(* (text accumulated by action-less fragments)* followed by a match of a   *)
(* rule that emits that token type (or discards).  Modes are ignored (any  *)
(* rule of any mode may be the producer), so this is a necessary condition *)
(* that also holds after lexical errors, where the mode stack is           *)
(* unspecified.  It catches text that was consumed without the rules'      *)
(* consent and then glued onto a token or dropped by a @discard.           *)
R0 == [k |-> "lit", cs |-> <<>>, neg |-> FALSE, items |-> <<>>, hassub |-> FALSE, sneg |-> FALSE, sitems |-> <<>>,
       es |-> <<>>, name |-> ""]
RECURSIVE SetToSeq(_)
SetToSeq(S) == IF S = {} THEN <<>> ELSE LET x == CHOOSE x \in S : TRUE IN <<x>> \o SetToSeq(S \ {x})
AllRules(C) == UNION {{C.modes[m].rules[r] : r \in DOMAIN C.modes[m].rules} : m \in DOMAIN C.modes}
ExprsWith(C, eff) == {rl.expr : rl \in {rl \in AllRules(C) : Effect(rl) = eff}}
AltOf(S) == [R0 EXCEPT !.k = "alt", !.es = SetToSeq(S)]
SegExpr(C, producers) ==
  LET acc == ExprsWith(C, <<"accum", 0>>)
  IN IF acc = {} THEN AltOf(producers)
     ELSE [R0 EXCEPT !.k = "cat", !.es = <<[R0 EXCEPT !.k = "star", !.es = <<AltOf(acc)>>], AltOf(producers)>>]

RECURSIVE CharIdx(_, _, _, _)
CharIdx(chars, b, k, off) == IF off >= b \/ k >= Len(chars) THEN k ELSE CharIdx(chars, b, k + 1, off + chars[k + 1][2])

SegTextOk(C, chars, seg, ty) ==
  LET i == CharIdx(chars, seg[2], 0, 0)
      j == CharIdx(chars, seg[3], 0, 0)
      text == SubSeq(chars, i + 1, j)
      producers == IF seg[1] = "tok" THEN ExprsWith(C, <<"emit", ty>>) ELSE ExprsWith(C, <<"discard", 0>>)
  IN producers # {} /\ Len(text) \in RuleEnds(C.macros, SegExpr(C, producers), text, 0)

\* token types in the order the tok segments appear (the driver's tokens of type > 1)
RECURSIVE TokTypes(_, _)
TokTypes(tokens, k) == IF k > Len(tokens) THEN <<>>
                       ELSE IF tokens[k][1] > 1 THEN <<tokens[k][1]>> \o TokTypes(tokens, k + 1) ELSE TokTypes(tokens, k + 1)
RECURSIVE BadSegs(_, _, _, _, _, _)
BadSegs(C, chars, segs, k, types, ti) ==
  IF k > Len(segs) THEN {}
  ELSE IF segs[k][1] = "tok"
       THEN (IF ti <= Len(types) /\ SegTextOk(C, chars, segs[k], types[ti]) THEN {} ELSE {k})
            \cup BadSegs(C, chars, segs, k + 1, types, ti + 1)
  ELSE IF segs[k][1] = "disc"
       THEN (IF SegTextOk(C, chars, segs[k], 0) THEN {} ELSE {k}) \cup BadSegs(C, chars, segs, k + 1, types, ti)
  ELSE BadSegs(C, chars, segs, k + 1, types, ti)

Check ==
  LET R == LRuns[rid]
      w == Walk(R.chars, R.steps, 1, 0, 0, -1, <<>>)
      n == NBytes(R.chars, 1)
      lost == \E k \in DOMAIN w.segs : w.segs[k][1] = "lost"
      badsegs == BadSegs(LCases[R.c], R.chars, w.segs, 1, TokTypes(R.tokens, 1), 1)
      ok == w.end = "eof" /\ ~lost /\ Consecutive(w.segs, 1, 0) = n /\ badsegs = {}
  IN IF ok THEN TRUE
     ELSE PrintT(ToJson([la |-> "bad", r |-> rid - 1, end |-> w.end, lost |-> lost, segs |-> w.segs, nbytes |-> n,
                         badsegs |-> badsegs]))

Init == rid \in 1..Len(LRuns) /\ done = FALSE
Next == ~done /\ done' = TRUE /\ rid' = rid /\ Check
Spec == Init /\ [][Next]_<<rid, done>>
=============================================================================
