----------------------------- MODULE LexConstruct -----------------------------
(***************************************************************************)
(* The lexer half of the generator between the (input-normalised) NFA of a *)
(* mode and the DFA whose rows are emitted, written the way lox does it:   *)
(*                                                                         *)
(*   Expand       dfa.NFAToDFA: take a pending subset off the worklist,    *)
(*                for every input label compute eClosure(move), reuse an   *)
(*                existing subset or queue the new one                     *)
(*   StartRefine  dfa.optimize: initial partition by Accept; as built, no  *)
(*                merging at all when that gives fewer than two groups     *)
(*   Split        dfa.subPartition: inside one group, everything that      *)
(*                differs from a `first' member (target groups, non-greedy *)
(*                mark, set of accepting NFA states) moves to ONE new group*)
(*   Compare      the quotient automaton, mode.pickAction (earliest source *)
(*                position among the NFA states that carry actions) and    *)
(*                mode.mergeTransitions (ranges to one target merged)      *)
(*                against the DFA lox built, read from the working tree by *)
(*                harness/cmd/dump (State.NFAStates is how the binding     *)
(*                finds which subsets a state stands for)                  *)
(*                                                                         *)
(* Det = TRUE  : one order of the worklist and of the splits; used to      *)
(*               validate the artefact of every case (one line per job).   *)
(* Det = FALSE : every order (lox pops a stack and iterates insertion-     *)
(*               ordered sets; nothing may depend on that); TLC checks     *)
(*               Confluence: the subsets are the reachable ones and the    *)
(*               partition is the coarsest stable one whatever the order.  *)
(* Jobs[j] = [c, m]: case and mode.                                        *)
(***************************************************************************)
EXTENDS Integers, Sequences, FiniteSets, TLC, Json, LData

CONSTANT Det
Jobs == JsonDeserialize("ljobs.json")

VARIABLES jid, phase, seen, work, delta, part
vars == <<jid, phase, seen, work, delta, part>>

J == Jobs[jid]
C == LCases[J.c]
N == C.nfa[J.m]
NS == N.states
D == C.dfa[J.m]

SeqSet(s) == {s[k] : k \in DOMAIN s}
EpsOf(n) == SeqSet(NS[n].eps)
EdgesOf(n) == SeqSet(NS[n].edges)
EdgesFrom(S) == UNION {EdgesOf(n) : n \in S}

RECURSIVE EClose(_)
EClose(S) == LET T == S \cup UNION {EpsOf(n) : n \in S} IN IF T = S THEN S ELSE EClose(T)
Labels(S) == {<<e[1], e[2]>> : e \in EdgesFrom(S)}
MoveL(S, l) == {e[3] : e \in {e \in EdgesFrom(S) : e[1] = l[1] /\ e[2] = l[2]}}
Acc(S) == \E n \in S : NS[n].accept
NGm(S) == \E n \in S : NS[n].ng
AccSet(S) == {n \in S : NS[n].accept}
Start == EClose({N.start})

\* mode.normalizeInputs has run: input labels are atomic symbols (equal or disjoint)
AllLabels == Labels(DOMAIN NS)
NormOK == \A l1, l2 \in AllLabels : l1 = l2 \/ l1[2] < l2[1] \/ l2[2] < l1[1]

Pick(W) == IF Det THEN {CHOOSE x \in W : TRUE} ELSE W

-----------------------------------------------------------------------------
Expand ==
  /\ phase = "subset" /\ work # {}
  /\ \E S \in Pick(work) :
       LET outs == {<<l, EClose(MoveL(S, l))>> : l \in Labels(S)}
           tos == {o[2] : o \in outs} IN
       /\ delta' = delta @@ (S :> outs)
       /\ seen' = seen \cup tos
       /\ work' = (work \ {S}) \cup (tos \ seen)
  /\ UNCHANGED <<jid, phase, part>>

P0 == {{S \in seen : Acc(S)}, {S \in seen : ~Acc(S)}} \ {{}}
Identity == {{S} : S \in seen}

StartRefine ==
  /\ phase = "subset" /\ work = {}
  /\ IF Cardinality(P0) < 2
     THEN part' = Identity /\ phase' = "compare"
     ELSE part' = P0 /\ phase' = "refine"
  /\ UNCHANGED <<jid, seen, work, delta>>

ClassOf(P, S) == CHOOSE G \in P : S \in G
\* what subPartition compares between `first' and another member of its group: the group reached on every input
\* (none = no transition), the non-greedy mark, and -- for accepting states -- the set of accepting NFA states
SplitSig(P, S) == <<{<<o[1], ClassOf(P, o[2])>> : o \in delta[S]}, NGm(S), IF Acc(S) THEN AccSet(S) ELSE {}>>
Moved(P, G, f) == LET sf == SplitSig(P, f) IN {s \in G \ {f} : SplitSig(P, s) # sf}
Rep(G) == CHOOSE x \in G : TRUE
\* differing from `first' is differing in SplitSig, an equivalence: whether a group can be split does not depend on the
\* member taken as `first' (what moves does), so the Det run looks at one representative per group
CanSplit(P) == IF Det THEN {<<G, Rep(G)>> : G \in {G \in P : Cardinality(G) > 1 /\ Moved(P, G, Rep(G)) # {}}}
               ELSE {gf \in UNION {{<<G, f>> : f \in G} : G \in P} : Moved(P, gf[1], gf[2]) # {}}

Split ==
  /\ phase = "refine"
  /\ LET cs == CanSplit(part) IN
     IF cs = {} THEN phase' = "compare" /\ part' = part
     ELSE \E gf \in Pick(cs) :
            LET mv == Moved(part, gf[1], gf[2]) IN
            part' = (part \ {gf[1]}) \cup {gf[1] \ mv, mv} /\ phase' = phase
  /\ UNCHANGED <<jid, seen, work, delta>>

-----------------------------------------------------------------------------
(* Compare: the quotient against the DFA lox built.                        *)
StartClass == ClassOf(part, Start)
ObsIdx(d, a) == LET tr == D[d].trans
                    ks == {k \in DOMAIN tr : tr[k][1] <= a /\ a <= tr[k][2]}
                IN IF ks = {} THEN 0 ELSE CHOOSE k \in ks : TRUE
ObsTo(d, a) == LET k == ObsIdx(d, a) IN IF k = 0 THEN 0 ELSE D[d].trans[k][3]
ClassEdges(G) == UNION {{<<o[1], ClassOf(part, o[2])>> : o \in delta[S]} : S \in G}

RECURSIVE Pairs(_)
Pairs(P) ==
  LET Q == P \cup UNION {{<<e[2], ObsTo(p[2], e[1][1])>> : e \in ClassEdges(p[1])} : p \in {p \in P : p[2] # 0}}
  IN IF Q = P THEN P ELSE Pairs(Q)

RECURSIVE SumSizes(_)
SumSizes(L) == IF L = {} THEN 0 ELSE LET l == CHOOSE l \in L : TRUE IN (l[2] - l[1] + 1) + SumSizes(L \ {l})

ActStates(G) == {n \in UNION G : NS[n].hasact}
PickOK(G, d) ==
  IF ActStates(G) = {} THEN D[d].pos = -1 /\ D[d].acts = <<>>
  ELSE LET w == CHOOSE n \in ActStates(G) : \A m \in ActStates(G) : NS[n].pos <= NS[m].pos IN
       D[d].pos = NS[w].pos /\ D[d].acts = NS[w].acts /\ D[d].actmodes = NS[w].actmodes

Verdict ==
  LET PP == Pairs({<<StartClass, 1>>})
      total == \A p \in PP : p[2] # 0
      bij == \A p, q \in PP : (p[1] = q[1]) = (p[2] = q[2])
      onto == {p[1] : p \in PP} = part /\ {p[2] : p \in PP} = DOMAIN D
      good == {p \in PP : p[2] # 0}
      acc == \A p \in good : (\E S \in p[1] : Acc(S)) = D[p[2]].accept
      ng == \A p \in good : (\E S \in p[1] : NGm(S)) = D[p[2]].ng
      nfa == \A p \in good : UNION p[1] = SeqSet(D[p[2]].nfa)
      cover == \A p \in good :
                 LET tr == D[p[2]].trans IN
                 /\ \A e \in ClassEdges(p[1]) :
                      LET k == ObsIdx(p[2], e[1][1]) IN
                      k # 0 /\ tr[k][2] >= e[1][2] /\ <<e[2], tr[k][3]>> \in PP
                 /\ SumSizes({e[1] : e \in ClassEdges(p[1])}) = SumSizes({<<tr[k][1], tr[k][2]>> : k \in DOMAIN tr})
                 /\ \A k \in DOMAIN tr : tr[k][1] <= tr[k][2] /\ (k < Len(tr) => tr[k][2] < tr[k + 1][1])
      pick == \A p \in good : PickOK(p[1], p[2])
  IN [lc |-> "v", j |-> jid - 1, norm |-> NormOK, total |-> total, bij |-> bij, onto |-> onto, acc |-> acc, ng |-> ng,
      nfa |-> nfa, cover |-> cover, pick |-> pick, nsub |-> Cardinality(seen), ncls |-> Cardinality(part),
      nobs |-> Len(D), merged |-> Cardinality(part) < Cardinality(seen)]

Compare ==
  /\ phase = "compare"
  /\ PrintT(ToJson(Verdict))
  /\ phase' = "done"
  /\ UNCHANGED <<jid, seen, work, delta, part>>

Init == /\ jid \in 1..Len(Jobs) /\ phase = "subset"
        /\ seen = {Start}
        /\ work = seen /\ delta = [x \in {} |-> {}] /\ part = {}
Next == Expand \/ StartRefine \/ Split \/ Compare
SpecSafe == Init /\ [][Next]_vars
Spec == SpecSafe /\ WF_vars(Next)

-----------------------------------------------------------------------------
(* Order independence (checked with Det = FALSE).                          *)
RECURSIVE Reach(_)
Reach(X) == LET Y == X \cup UNION {{EClose(MoveL(S, l)) : l \in Labels(S)} : S \in X} IN IF Y = X THEN X ELSE Reach(Y)
RefTo(S, l) == IF l \in Labels(S) THEN EClose(MoveL(S, l)) ELSE {}
Sig(P, S) == <<NGm(S), Acc(S), IF Acc(S) THEN AccSet(S) ELSE {},
               {<<l, IF RefTo(S, l) = {} THEN {} ELSE ClassOf(P, RefTo(S, l))>> : l \in Labels(S)}>>
RefineAll(P) == UNION {{{s \in G : Sig(P, s) = Sig(P, t)} : t \in G} : G \in P}
RECURSIVE Fix(_)
Fix(P) == LET Q == RefineAll(P) IN IF Q = P THEN P ELSE Fix(Q)

Confluence ==
  /\ (phase # "subset") => seen = Reach({Start})
  /\ (phase \in {"compare", "done"}) =>
       part = (IF Cardinality(P0) < 2 THEN Identity ELSE Fix(P0))
\* the partition only ever gets finer, and never separates what the coarsest stable partition keeps together
Monotone == [][phase = "refine" /\ phase' = "refine" => \A G \in part' : \E H \in part : G \subseteq H]_vars
Terminates == <>(phase = "done")
=============================================================================
