SPECIFICATION OSpec
CHECK_DEADLOCK FALSE
