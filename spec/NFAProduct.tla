------------------------------ MODULE NFAProduct ------------------------------
(***************************************************************************)
(* The first stage of the lexer generator -- ast.*.NFACons, the Thompson   *)
(* construction of literals, classes, |, ?, *, +, *?, +? and macros, and   *)
(* mode.Build's start state -- against the meaning of the rules (LexSem),  *)
(* over all strings: TLC explores the product of the NFA's subset          *)
(* semantics (on the fly, code point by code point over the interval       *)
(* alphabet) with the reference derivative automaton of the mode's rules.  *)
(* In every reachable product state:                                       *)
(*   Viability  the NFA can move on a  <=>  some rule can still match      *)
(*   Rules      the rules whose accepting NFA state is present are exactly *)
(*              the rules that match here                                  *)
(*   NGMark     a state carrying the non-greedy mark is present exactly    *)
(*              when some rule sits at the exit of a non-greedy loop       *)
(* Jobs[j] = [c, m].  One line per failing product state.                  *)
(***************************************************************************)
EXTENDS LexSem, LData, TLC, Json

Jobs == JsonDeserialize("ljobs.json")
VARIABLES jid, S, RS

J == Jobs[jid]
C == LCases[J.c]
N == C.nfa[J.m]
NS == N.states
Rules == C.modes[J.m].rules
Mac == C.macros

SeqSet(s) == {s[k] : k \in DOMAIN s}
EpsOf(n) == SeqSet(NS[n].eps)
EdgesFrom(X) == UNION {SeqSet(NS[n].edges) : n \in X}
RECURSIVE EClose(_)
EClose(X) == LET T == X \cup UNION {EpsOf(n) : n \in X} IN IF T = X THEN X ELSE EClose(T)
MoveA(X, a) == {e[3] : e \in {e \in EdgesFrom(X) : e[1] <= a /\ a <= e[2]}}
Points == {p \in SeqSet(C.points) : p >= 0 /\ p <= MaxRune}

Judge(X, rs) ==
  LET have == {NS[n].rule : n \in {n \in X : NS[n].accept}}
      want == Matching(Mac, rs)
      ngHave == \E n \in X : NS[n].ng
      ngWant == \E x \in rs : SpineAtNGExit(Mac, x[2])
  IN IF have = want /\ ngHave = ngWant THEN TRUE
     ELSE PrintT(ToJson([np |-> "bad", j |-> jid - 1, have |-> have, want |-> want, ngHave |-> ngHave, ngWant |-> ngWant,
                         nfa |-> X]))

Init == /\ jid \in 1..Len(Jobs) /\ S = EClose({N.start})
        /\ RS = StartSet(C.modes[Jobs[jid].m].rules) /\ Judge(S, RS)

Next ==
  /\ jid' = jid
  /\ \E a \in Points :
       LET nS == EClose(MoveA(S, a))
           nr == Deriv(Mac, a, RS)
       IN IF nS = {} /\ nr = {} THEN FALSE
          ELSE IF (nS = {}) # (nr = {})
          THEN /\ PrintT(ToJson([np |-> "via", j |-> jid - 1, a |-> a, nfaalive |-> nS # {}, refalive |-> nr # {}, nfa |-> S]))
               /\ FALSE
          ELSE S' = nS /\ RS' = nr /\ Judge(nS, nr)

Spec == Init /\ [][Next]_<<jid, S, RS>>
=============================================================================
