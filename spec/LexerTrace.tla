----------------------------- MODULE LexerTrace -----------------------------
(***************************************************************************)
(* Trace validation of real lexer runs (simplelexer v0.5.0 driving the     *)
(* generated state machine) against LexerRT loaded with the emitted        *)
(* tables.  LRuns[r] = [c, chars, tokens, steps, budget, panic] where      *)
(* steps[k] = <<rune, code, state, depth, mode>> is what the k-th PushRune *)
(* call got and returned (and the machine's scalars after it; <<-2,...>>   *)
(* marks a Reset) and tokens[k] = <<type, start, end, errchar>>.           *)
(* The driver model also keeps a ghost list of text segments (token /      *)
(* discard / error stretch / lost) used by the accounting property (C11).  *)
(***************************************************************************)
EXTENDS LexerRT, LData, TLC

VARIABLES rid, sm, ci, boff, start, l, tl, segs, conf, gh
tvars == <<rid, sm, ci, boff, start, l, tl, segs, conf, gh>>

Rn == LRuns[rid]
Tabs == LCases[Rn.c].tables
Chars == Rn.chars
CharAt(k) == IF k < Len(Chars) THEN Chars[k + 1][1] ELSE -1
WidthAt(k) == IF k < Len(Chars) THEN Chars[k + 1][2] ELSE 0

Init ==
  /\ rid \in 1..Len(LRuns)
  /\ sm = InitSM /\ ci = 0 /\ boff = 0 /\ start = -1 /\ l = 1 /\ tl = 1 /\ segs = <<>> /\ conf = "run" /\ gh = [skipped |-> FALSE, stale |-> FALSE]

RECURSIVE SkipLine(_)
\* for l.char != '\n' && l.char != -1 { consume() }; consume()   -- returns the char index afterwards
SkipLine(k) == IF CharAt(k) # 10 /\ CharAt(k) # -1 THEN SkipLine(k + 1) ELSE (IF k < Len(Chars) THEN k + 1 ELSE k)
RECURSIVE Bytes(_, _)
Bytes(a, b) == IF a >= b THEN 0 ELSE WidthAt(a) + Bytes(a + 1, b)

Say(kind, extra) ==
  PrintT(ToJson([lt |-> kind, r |-> rid - 1, l |-> l, tl |-> tl, segs |-> segs, x |-> extra,
                 nbytes |-> Bytes(0, Len(Chars)), depth |-> Len(sm.stack), gh |-> gh]))

Step ==
  /\ conf = "run"
  /\ rid' = rid
  /\ gh' = [skipped |-> gh.skipped \/ PushRune(Tabs, sm, CharAt(ci)).skipped,
            stale |-> gh.stale \/ PushRune(Tabs, sm, CharAt(ci)).stale]
  /\ LET ch == CharAt(ci)
         st1 == IF start = -1 THEN boff ELSE start
         res == PushRune(Tabs, sm, ch)
         want == <<ch, res.code, res.state, Len(res.stack), res.mode>>
         sm1 == [state |-> res.state, mode |-> res.mode, stack |-> res.stack, token |-> res.token]
     IN IF l > Len(Rn.steps)
        THEN /\ conf' = (IF Rn.budget THEN "truncated" ELSE "mismatch")
             /\ Say(IF Rn.budget THEN "truncated" ELSE "mismatch", [why |-> "model continues after the last recorded call"])
             /\ UNCHANGED <<sm, ci, boff, start, l, tl, segs>>
        ELSE IF Rn.steps[l] # want
        THEN /\ conf' = "mismatch"
             /\ Say("mismatch", [model |-> want, real |-> Rn.steps[l]])
             /\ UNCHANGED <<sm, ci, boff, start, l, tl, segs>>
        ELSE CASE res.code = 0 ->
                    /\ sm' = sm1 /\ ci' = (IF ci < Len(Chars) THEN ci + 1 ELSE ci) /\ boff' = boff + WidthAt(ci)
                    /\ start' = st1 /\ l' = l + 1 /\ UNCHANGED <<tl, segs>> /\ conf' = conf
               [] res.code = 3 ->
                    /\ sm' = sm1 /\ start' = st1 /\ l' = l + 1 /\ UNCHANGED <<ci, boff, tl, segs>> /\ conf' = conf
               [] res.code = 2 ->
                    /\ sm' = sm1 /\ start' = -1 /\ l' = l + 1 /\ segs' = Append(segs, <<"disc", st1, boff>>)
                    /\ UNCHANGED <<ci, boff, tl>> /\ conf' = conf
               [] res.code = 1 ->
                    IF tl <= Len(Rn.tokens) /\ Rn.tokens[tl] = <<res.token, st1, boff, 0>>
                    THEN /\ sm' = sm1 /\ start' = -1 /\ l' = l + 1 /\ tl' = tl + 1
                         /\ segs' = Append(segs, <<"tok", st1, boff>>) /\ UNCHANGED <<ci, boff>> /\ conf' = conf
                    ELSE /\ conf' = "mismatch" /\ Say("mismatch", [modeltok |-> <<res.token, st1, boff, 0>>])
                         /\ UNCHANGED <<sm, ci, boff, start, l, tl, segs>>
               [] res.code = 4 ->
                    IF tl = Len(Rn.tokens) /\ Rn.tokens[tl] = <<0, st1, st1, 0>> /\ l = Len(Rn.steps)
                    THEN /\ conf' = "ok"
                         /\ segs' = (IF st1 < boff THEN Append(segs, <<"lost", st1, boff>>) ELSE segs)
                         /\ sm' = sm1 /\ l' = l + 1 /\ tl' = tl + 1 /\ UNCHANGED <<ci, boff, start>>
                         /\ PrintT(ToJson([lt |-> "ok", r |-> rid - 1, segs |-> segs', nbytes |-> Bytes(0, Len(Chars)),
                                           depth |-> Len(sm.stack), gh |-> gh']))
                    ELSE /\ conf' = "mismatch" /\ Say("mismatch", [modeltok |-> <<0, st1, st1, 0>>])
                         /\ UNCHANGED <<sm, ci, boff, start, l, tl, segs>>
               [] OTHER ->   \* error: ERROR token, skip to the next line, Reset
                    LET k2 == SkipLine(ci) IN
                    IF /\ tl <= Len(Rn.tokens) /\ Rn.tokens[tl] = <<1, st1, st1, ch>>
                       /\ l + 1 <= Len(Rn.steps) /\ Rn.steps[l + 1][1] = -2
                    THEN /\ sm' = ResetSM(sm1) /\ ci' = k2 /\ boff' = boff + Bytes(ci, k2) /\ start' = -1
                         /\ l' = l + 2 /\ tl' = tl + 1 /\ segs' = Append(segs, <<"err", st1, boff + Bytes(ci, k2)>>)
                         /\ conf' = conf
                    ELSE /\ conf' = "mismatch" /\ Say("mismatch", [modeltok |-> <<1, st1, st1, ch>>])
                         /\ UNCHANGED <<sm, ci, boff, start, l, tl, segs>>

Spec == Init /\ [][Step]_tvars
=============================================================================
