-------------------------------- MODULE Rang3Defs --------------------------------
(***************************************************************************)
(* The range splitter of the lexer generator (internal/lexergen/rang3):    *)
(* Normalize as a state machine -- a heap (a set, since rangeHeap refuses  *)
(* duplicates) popped in (B, E) order, the four geometric cases, the       *)
(* onChange events, and the relabelling that mode.normalizeInputs applies  *)
(* (every original range is always the exact union of its current pieces). *)
(* Checked exhaustively by TLC over every list of up to 3 ranges in the    *)
(* universe 0..U; the same definitions replay the events of the real code. *)
(***************************************************************************)
EXTENDS Integers, Sequences, FiniteSets

CONSTANT U              \* points 0..U

Ranges == {<<b, e>> : b \in 0..U, e \in 0..U} \cap {r \in (0..U) \X (0..U) : r[1] <= r[2]}
Pts(r) == r[1]..r[2]
Less(x, y) == x[1] < y[1] \/ (x[1] = y[1] /\ x[2] < y[2])
MinOf(H) == CHOOSE x \in H : \A y \in H : x = y \/ Less(x, y)
Intersects(x, y) == LET a == IF x[1] > y[1] THEN y ELSE x
                        b == IF x[1] > y[1] THEN x ELSE y
                    IN b[1] <= a[2]

\* one iteration of the loop `for rh.Len() > 1`: returns [heap, ev] (ev: sequence of <<o, a, b, c>>)
NormStep(H) ==
  LET x == MinOf(H)
      H1 == H \ {x}
      y == MinOf(H1)
  IN IF ~Intersects(x, y) THEN [heap |-> H1, ev |-> <<>>]
     ELSE IF x[1] = y[1] /\ x[2] < y[2]
          THEN LET a == <<x[2] + 1, y[2]>>
               IN [heap |-> (H1 \ {y}) \cup {x, a}, ev |-> <<<<y, x, a, a>>>>]
     ELSE IF x[1] < y[1] /\ x[2] = y[2]
          THEN LET a == <<x[1], y[1] - 1>>
               IN [heap |-> H1 \cup {a}, ev |-> <<<<x, a, y, y>>>>]
     ELSE IF x[1] < y[1] /\ x[2] < y[2]
          THEN LET a == <<x[1], y[1] - 1>>
                   b == <<y[1], x[2]>>
                   c == <<x[2] + 1, y[2]>>
               IN [heap |-> (H1 \ {y}) \cup {a, b, c}, ev |-> <<<<x, a, b, b>>, <<y, b, c, c>>>>]
     ELSE IF x[1] < y[1] /\ x[2] > y[2]
          THEN LET a == <<x[1], y[1] - 1>>
                   b == <<y[2] + 1, x[2]>>
               IN [heap |-> H1 \cup {a, b}, ev |-> <<<<x, a, y, b>>>>]
     ELSE [heap |-> {}, ev |-> <<<<<<-1, -1>>, x, y, y>>>>]    \* panic("not reached")

\* relabel: every piece set containing o gets o replaced by a, b, c
Relabel(P, ev) == [r \in DOMAIN P |-> IF ev[1] \in P[r] THEN (P[r] \ {ev[1]}) \cup {ev[2], ev[3], ev[4]} ELSE P[r]]
RECURSIVE RelabelAll(_, _)
RelabelAll(P, evs) == IF evs = <<>> THEN P ELSE RelabelAll(Relabel(P, Head(evs)), Tail(evs))

-----------------------------------------------------------------------------
(* the whole run as a function (used to replay the real code's events) *)
RECURSIVE NormRun(_, _)
NormRun(H, fuel) ==
  IF Cardinality(H) <= 1 \/ fuel = 0 THEN <<>>
  ELSE LET s == NormStep(H) IN s.ev \o NormRun(s.heap, fuel - 1)

\* set-theoretic meaning of Flatten / Subtract results
PtsOfList(l) == UNION {Pts(l[k]) : k \in DOMAIN l}
\* canonical form: sorted, disjoint, not touching
Canonical(l) == \A k \in DOMAIN l : l[k][1] <= l[k][2] /\ (k > 1 => l[k - 1][2] + 1 < l[k][1])
=============================================================================
