----------------------------- MODULE TableCodec -----------------------------
(***************************************************************************)
(* Small-scope check of the row-compressed table codec                     *)
(* (internal/codegen/table.go AddRow / Array) against its reader (_Find).  *)
(* Phase "gen": TLC enumerates every sequence of up to 2 rows of length    *)
(* <= 2 (and up to 3 rows of length <= 1) over the values                  *)
(* {0, 1, 2, 10, 12, 255, 256, 65536} with increasing sparse indices in    *)
(* 0..3 and                                                                *)
(* prints them.  Phase "check": the arrays the real codec produced for     *)
(* them (harness/cmd/codec) must decode back to the rows: Decode(Encode(r))*)
(* = r, rows shared only when identical, absent indices marked -1 (uint32 *)
(* values arrive reinterpreted as int32: TLC integers are 32-bit).         *)
(***************************************************************************)
EXTENDS Integers, Sequences, FiniteSets, TLC, Json, Tables

Vals == {0, 1, 2, 10, 12, 255, 256, 65536}     \* 10 and 12 are digit-concatenations of smaller values
Rows2 == {<<>>} \cup {<<a>> : a \in Vals} \cup {<<a, b>> : a \in Vals, b \in Vals}
Rows1 == {<<>>} \cup {<<a>> : a \in Vals}
Idx == 0..3

Pairs2 == {[idx |-> <<i, j>>, rows |-> <<r, s>>] : i \in Idx, j \in Idx, r \in Rows2, s \in Rows2}
GenCases ==
  {[idx |-> <<i>>, rows |-> <<r>>] : i \in Idx, r \in Rows2}
  \cup {c \in Pairs2 : c.idx[1] < c.idx[2]}
  \cup {[idx |-> <<0, 1, 3>>, rows |-> <<r, s, u>>] : r \in Rows1, s \in Rows1, u \in Rows1}
  \cup {[idx |-> <<1, 2, 3>>, rows |-> <<r, s, u>>] : r \in Rows1, s \in Rows1, u \in Rows1}

Phase == JsonDeserialize("codec_phase.json")
Done == JsonDeserialize("codec_done.json")      \* [cases, outs] in phase "check"

\* read row y of arr exactly as the generated code does (index vector, count, data)
DecodeRow(arr, y) == LET i == At(arr, y) n == At(arr, i) IN SubSeq(arr, i + 2, i + 1 + n)

Ok(c, arr, absent) ==
  LET n == c.idx[Len(c.idx)] + 1
  IN /\ Len(arr) >= n
     /\ \A k \in DOMAIN c.idx : At(arr, c.idx[k]) >= n /\ At(arr, c.idx[k]) < Len(arr)
                                /\ DecodeRow(arr, c.idx[k]) = c.rows[k]
     /\ \A y \in 0..(n - 1) : (~\E k \in DOMAIN c.idx : c.idx[k] = y) => At(arr, y) = absent
     \* rows are shared only when identical
     /\ \A k1 \in DOMAIN c.idx, k2 \in DOMAIN c.idx :
          At(arr, c.idx[k1]) = At(arr, c.idx[k2]) => c.rows[k1] = c.rows[k2]

VARIABLES k, done
Init == k \in (IF Phase.phase = "gen" THEN {0} ELSE 1..Len(Done.cases)) /\ done = FALSE
Next ==
  /\ ~done /\ done' = TRUE /\ k' = k
  /\ IF Phase.phase = "gen" THEN PrintT(ToJson([gen |-> GenCases]))
     ELSE LET c == Done.cases[k] o == Done.outs[k] IN
          IF o.panic = "" /\ Ok(c, o.i32, -1) /\ Ok(c, o.u32, -1) THEN TRUE
          ELSE PrintT(ToJson([codec |-> "bad", k |-> k - 1, c |-> c, o |-> o]))
Spec == Init /\ [][Next]_<<k, done>>
=============================================================================
