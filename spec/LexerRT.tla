------------------------------ MODULE LexerRT ------------------------------
(***************************************************************************)
(* The generated lexer state machine (internal/codegen/emit_lexer.go,      *)
(* `PushRune`, `Reset`) loaded with the emitted `_lexerModeN` tables, and  *)
(* the reference driver (loxlex/simplelexer `ReadToken`, `consume`).       *)
(* One step = one PushRune call together with the driver's reaction.       *)
(*                                                                         *)
(* Row format (from the template comment): index vector, then per row      *)
(*   count, flags, gotoN, gotoN x (lo, hi, next), pairs (actionType, param) *)
(* Kept as written: actions after Accept/Discard/Accum in a row are never  *)
(* run (lox orders a rule's actions so that none follows them); PushMode   *)
(* pushes l.mode, the mode current when the action runs; Reset does not    *)
(* clear the mode stack.                                                   *)
(***************************************************************************)
EXTENDS Integers, Sequences, FiniteSets, Tables

\* ---- PushRune as a function of (tables, sm, r) ----
\* sm = [state, mode, stack, token]; mode = -1 is Go's nil (mode 0 on first use)

RECURSIVE BSearch(_, _, _, _, _)
\* the binary search of PushRune over gotoN triples starting at i; returns next state or -1
BSearch(mt, i, b, e, r) ==
  IF b >= e THEN -1
  ELSE LET j == b + ((e - b) \div 2)
           k == i + j * 3
       IN IF r >= At(mt, k) /\ r <= At(mt, k + 1) THEN At(mt, k + 2)
          ELSE IF r < At(mt, k) THEN BSearch(mt, i, b, j, r)
          ELSE BSearch(mt, i, j + 1, e, r)

RECURSIVE RunActs(_, _, _, _, _, _, _, _, _)
\* the action loop; entry is the mode index at entry of PushRune (the local `mode`)
\* returns [code, state, mode, stack, token]
\* stale (ghost): a PushMode ran after an earlier action of the same row had changed the mode
RunActs(mt, i, end, entry, st, m, stk, tok, stale) ==
  IF i >= end THEN [code |-> -3, state |-> st, mode |-> m, stack |-> stk, token |-> tok, skipped |-> FALSE, stale |-> stale]   \* fell out of the loop
  ELSE LET ty == At(mt, i)
           pa == At(mt, i + 1)
       IN CASE ty = 1 -> RunActs(mt, i + 2, end, entry, st, pa, Append(stk, m), tok, stale \/ m # entry)
            [] ty = 2 -> IF stk = <<>> THEN [code |-> -1, state |-> st, mode |-> m, stack |-> stk, token |-> tok, skipped |-> FALSE, stale |-> stale]
                         ELSE RunActs(mt, i + 2, end, entry, st, stk[Len(stk)], SubSeq(stk, 1, Len(stk) - 1), tok, stale)
            [] ty = 3 -> [code |-> 1, state |-> 0, mode |-> m, stack |-> stk, token |-> pa, skipped |-> i + 2 < end, stale |-> stale]
            [] ty = 4 -> [code |-> 2, state |-> 0, mode |-> m, stack |-> stk, token |-> tok, skipped |-> i + 2 < end, stale |-> stale]
            [] ty = 5 -> [code |-> 3, state |-> 0, mode |-> m, stack |-> stk, token |-> tok, skipped |-> i + 2 < end, stale |-> stale]
            [] OTHER -> RunActs(mt, i + 2, end, entry, st, m, stk, tok, stale)

PushRune(tabs, sm, r) ==
  LET m0 == IF sm.mode = -1 THEN 0 ELSE sm.mode
      mt == tabs[m0 + 1]
      i0 == At(mt, sm.state)
      count == At(mt, i0)
      end == i0 + 1 + count
      flags == At(mt, i0 + 1)
      gotoN == At(mt, i0 + 2)
      i == i0 + 3
      nx == IF flags % 2 = 0 THEN BSearch(mt, i, 0, gotoN, r) ELSE -1
  IN IF nx # -1
     THEN [code |-> 0, state |-> nx, mode |-> m0, stack |-> sm.stack, token |-> sm.token, skipped |-> FALSE, stale |-> FALSE]
     ELSE LET a == RunActs(mt, i + gotoN * 3, end, m0, sm.state, m0, sm.stack, sm.token, FALSE)
          IN IF a.code # -3 THEN a
             ELSE IF a.state = 0 /\ r = -1 THEN [a EXCEPT !.code = 4]
             ELSE [a EXCEPT !.code = -1]

ResetSM(sm) == [sm EXCEPT !.mode = -1, !.state = 0]
InitSM == [state |-> 0, mode |-> -1, stack |-> <<>>, token |-> 0]

\* decoded view of a row, for the product exploration and well-formedness
RowOf(mt, q) ==
  LET i0 == At(mt, q)
      count == At(mt, i0)
      gotoN == At(mt, i0 + 2)
  IN [flags |-> At(mt, i0 + 1), gotoN |-> gotoN,
      ranges |-> [k \in 1..gotoN |-> <<At(mt, i0 + 3 + (k - 1) * 3), At(mt, i0 + 4 + (k - 1) * 3), At(mt, i0 + 5 + (k - 1) * 3)>>],
      acts |-> [k \in 1..((count - 2 - gotoN * 3) \div 2) |->
                  <<At(mt, i0 + 3 + gotoN * 3 + (k - 1) * 2), At(mt, i0 + 4 + gotoN * 3 + (k - 1) * 2)>>],
      count |-> count]
NStates(mt) == At(mt, 0)   \* the first row starts right after the index vector
=============================================================================
