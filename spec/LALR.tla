-------------------------------- MODULE LALR --------------------------------
(***************************************************************************)
(* Reference LALR(1) construction, textbook style and independent of       *)
(* lox's merge-as-you-go worklist: nullable / FIRST as least fixed points, *)
(* the canonical LR(1) collection, LALR(1) = union of the LR(1) states     *)
(* with equal cores, raw action sets, and the documented precedence rule.  *)
(*                                                                         *)
(* G = [terminals, rules, prods |-> <<[lhs, rhs |-> <<[t, i]>>, prec,      *)
(*      assoc]>>]   0-based indices as dumped; prods[1] is S' -> start.    *)
(* Items are <<p, d, a>> (production, dot, lookahead terminal), 0-based.   *)
(***************************************************************************)
EXTENDS Integers, Sequences, FiniteSets

NP(G) == Len(G.prods)
Rhs(G, p) == G.prods[p + 1].rhs
Lhs(G, p) == G.prods[p + 1].lhs
ProdsOfRule(G, r) == {p \in 0..(NP(G) - 1) : Lhs(G, p) = r}
IsRuleSym(x) == x.t = 0

RECURSIVE NullableLFP(_, _)
NullableLFP(G, N) ==
  LET more == {r \in 0..(Len(G.rules) - 1) :
                 /\ r \notin N
                 /\ \E p \in ProdsOfRule(G, r) :
                      \A k \in DOMAIN Rhs(G, p) : IsRuleSym(Rhs(G, p)[k]) /\ Rhs(G, p)[k].i \in N}
  IN IF more = {} THEN N ELSE NullableLFP(G, N \cup more)
Nullable(G) == NullableLFP(G, {})

RECURSIVE FirstSeq(_, _, _, _)
FirstSeq(F, N, seq, k) ==
  IF k > Len(seq) THEN {}
  ELSE LET x == seq[k] IN
    IF ~IsRuleSym(x) THEN {x.i}
    ELSE F[x.i] \cup (IF x.i \in N THEN FirstSeq(F, N, seq, k + 1) ELSE {})

NullableSeq(N, seq, k) == \A q \in k..Len(seq) : IsRuleSym(seq[q]) /\ seq[q].i \in N

RECURSIVE FirstLFP(_, _, _)
FirstLFP(G, N, F) ==
  LET F2 == [r \in 0..(Len(G.rules) - 1) |->
               F[r] \cup UNION {FirstSeq(F, N, Rhs(G, p), 1) : p \in ProdsOfRule(G, r)}]
  IN IF F2 = F THEN F ELSE FirstLFP(G, N, F2)
FirstSets(G, N) == FirstLFP(G, N, [r \in 0..(Len(G.rules) - 1) |-> {}])

\* K bundles what is computed once per grammar
Ctx(G) == LET N == Nullable(G) IN [g |-> G, n |-> N, f |-> FirstSets(G, N)]

NextSym(K, it) == Rhs(K.g, it[1])[it[2] + 1]
AtEnd(K, it) == it[2] = Len(Rhs(K.g, it[1]))

\* FIRST(beta a) for item [A -> alpha . B beta, a]
Lookaheads(K, it) ==
  LET seq == Rhs(K.g, it[1])
  IN FirstSeq(K.f, K.n, seq, it[2] + 2) \cup (IF NullableSeq(K.n, seq, it[2] + 2) THEN {it[3]} ELSE {})

RECURSIVE Closure(_, _)
Closure(K, I) ==
  LET new == UNION {{<<q, 0, b>> : q \in ProdsOfRule(K.g, NextSym(K, it).i), b \in Lookaheads(K, it)}
                    : it \in {it \in I : ~AtEnd(K, it) /\ IsRuleSym(NextSym(K, it))}}
  IN IF new \subseteq I THEN I ELSE Closure(K, I \cup new)

Goto(K, I, x) == Closure(K, {<<it[1], it[2] + 1, it[3]>> : it \in {it \in I : ~AtEnd(K, it) /\ NextSym(K, it) = x}})
NextSyms(K, I) == {NextSym(K, it) : it \in {it \in I : ~AtEnd(K, it)}}

RECURSIVE CollectLFP(_, _, _)
CollectLFP(K, C, frontier) ==
  LET gotos == UNION {{Goto(K, I, x) : x \in NextSyms(K, I)} : I \in frontier}
      fresh == gotos \ C
  IN IF fresh = {} THEN C ELSE CollectLFP(K, C \cup fresh, fresh)

Start0(K) == Closure(K, {<<0, 0, 0>>})
LR1(K) == CollectLFP(K, {Start0(K)}, {Start0(K)})

Core(I) == {<<it[1], it[2]>> : it \in I}
\* LALR(1) states: union of the canonical states with the same core
LALRStates(C) == {UNION {I \in C : Core(I) = k} : k \in {Core(I) : I \in C}}
\* the merged state reached from merged state M on x
MGoto(K, Ms, M, x) ==
  LET k == Core(Goto(K, M, x)) IN CHOOSE M2 \in Ms : Core(M2) = k

-----------------------------------------------------------------------------
(* raw actions and the documented precedence rule *)

\* set of [kind, p] for state M and terminal a; shifting productions are a set
ShiftProds(K, M, a) == {it[1] : it \in {it \in M : ~AtEnd(K, it) /\ NextSym(K, it) = [t |-> 1, i |-> a]}}
ReduceProds(K, M, a) == {it[1] : it \in {it \in M : AtEnd(K, it) /\ it[3] = a /\ it[1] # 0}}
Accepts(K, M, a) == \E it \in M : AtEnd(K, it) /\ it[1] = 0 /\ it[3] = a

Prec(K, p) == K.g.prods[p + 1].prec
Assoc(K, p) == K.g.prods[p + 1].assoc

\* Outcome for one cell: the set of verdicts the documentation allows.
\* each verdict is <<"none">> | <<"shift">> | <<"reduce", p>> | <<"accept">> | <<"conflict">>
Cell(K, M, a) ==
  LET sp == ShiftProds(K, M, a)
      rp == ReduceProds(K, M, a)
      acc == Accepts(K, M, a)
      n == (IF sp # {} THEN 1 ELSE 0) + Cardinality(rp) + (IF acc THEN 1 ELSE 0)
  IN IF n = 0 THEN {<<"none">>}
     ELSE IF n = 1 THEN (IF sp # {} THEN {<<"shift">>}
                         ELSE IF acc THEN {<<"accept">>}
                         ELSE {<<"reduce", CHOOSE p \in rp : TRUE>>})
     ELSE IF sp # {} /\ Cardinality(rp) = 1 /\ ~acc
     THEN LET r == CHOOSE p \in rp : TRUE
              oneRule == \A p \in sp : Lhs(K.g, p) = Lhs(K.g, r)
              allQual == Prec(K, r) > 0 /\ \A p \in sp : Prec(K, p) > 0
              levels == {Prec(K, p) : p \in sp}
          IN IF ~(oneRule /\ allQual) THEN {<<"conflict">>}
             ELSE IF Cardinality(levels) > 1
                  \* shifting productions of different levels: the documentation is silent
                  THEN {<<"conflict">>, <<"shift">>, <<"reduce", r>>}
             ELSE LET ps == CHOOSE l \in levels : TRUE IN
                  IF ps > Prec(K, r) THEN {<<"shift">>}
                  ELSE IF ps < Prec(K, r) THEN {<<"reduce", r>>}
                  ELSE LET assocs == {Assoc(K, p) : p \in sp \cup {r}} IN
                       IF assocs = {0} THEN {<<"reduce", r>>}
                       ELSE IF assocs = {1} THEN {<<"shift">>}
                       ELSE {<<"shift">>, <<"reduce", r>>}     \* mixed associativity on one level: silent
     ELSE {<<"conflict">>}

Terminals(K) == 0..(Len(K.g.terminals) - 1)

\* "must" conflict: some cell allows only conflict; "may": some cell allows conflict
MustConflict(K, Ms) == \E M \in Ms : \E a \in Terminals(K) : Cell(K, M, a) = {<<"conflict">>}
MayConflict(K, Ms) == \E M \in Ms : \E a \in Terminals(K) : <<"conflict">> \in Cell(K, M, a)
=============================================================================
