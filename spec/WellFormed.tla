----------------------------- MODULE WellFormed -----------------------------
(***************************************************************************)
(* C17: the documented well-formedness rules of a lox specification,       *)
(* written from docs/markdown/{lexer,parser}_reference.md and the property *)
(* statement, evaluated on an abstract rendering of each specification     *)
(* variant; lox's verdict and the position of its diagnostics are compared *)
(* with it.                                                                *)
(*                                                                         *)
(* WCases[c] = [id, decls, accepted, diaglines |-> <<[file, line]>>,       *)
(*              fault |-> index of the faulty declaration or 0]            *)
(* decls[d] = [kind, file, l1, l2, name (code points), names, mode,        *)
(*   macrorefs, emits, pushes, lits, ranges, acts, start, prefs, aliases,  *)
(*   simple]                                                               *)
(*   kind in token | frag | macro | mode | external | rule                 *)
(***************************************************************************)
EXTENDS Integers, Sequences, FiniteSets, TLC, Json

WCases == JsonDeserialize("wf_cases.json")

SeqSet(s) == {s[i] : i \in DOMAIN s}
Upper(c) == c >= 65 /\ c <= 90
Lower(c) == c >= 97 /\ c <= 122
Digit(c) == c >= 48 /\ c <= 57
US == 95

\* lexer_reference.md "Lexical Names"
LexNameOk(n) ==
  /\ n # <<>> /\ Upper(n[1])
  /\ \A i \in DOMAIN n : Upper(n[i]) \/ Digit(n[i]) \/ n[i] = US
  /\ n[Len(n)] # US
  /\ \A i \in 1..(Len(n) - 1) : ~(n[i] = US /\ n[i + 1] = US)
  /\ n # <<69, 79, 70>> /\ n # <<69, 82, 82, 79, 82>>          \* EOF, ERROR

\* parser_reference.md: Go identifier, no leading underscore, no consecutive underscores
RuleNameOk(n) ==
  /\ n # <<>> /\ (Upper(n[1]) \/ Lower(n[1]))
  /\ \A i \in DOMAIN n : Upper(n[i]) \/ Lower(n[i]) \/ Digit(n[i]) \/ n[i] = US
  /\ \A i \in 1..(Len(n) - 1) : ~(n[i] = US /\ n[i + 1] = US)

Count(s, x) == Cardinality({i \in DOMAIN s : s[i] = x})

WF(D) ==
  LET named == {d \in DOMAIN D : D[d].kind \in {"token", "macro", "mode", "rule"}}
      extnames == UNION {SeqSet(D[d].names) : d \in {d \in DOMAIN D : D[d].kind = "external"}}
      \* all declared names with multiplicity: each named declaration once, each external name once
      NameOcc(n) == Cardinality({d \in named : D[d].name = n})
                    + Cardinality({<<d, i>> \in (DOMAIN D) \X (1..8) :
                                     D[d].kind = "external" /\ i \in DOMAIN D[d].names /\ D[d].names[i] = n})
      allnames == {D[d].name : d \in named} \cup extnames
      tokens == {D[d].name : d \in {d \in DOMAIN D : D[d].kind = "token"}}
      macros == {D[d].name : d \in {d \in DOMAIN D : D[d].kind = "macro"}}
      modes == {D[d].name : d \in {d \in DOMAIN D : D[d].kind = "mode"}}
      rules == {D[d].name : d \in {d \in DOMAIN D : D[d].kind = "rule"}}
      MacroDecl(n) == CHOOSE d \in DOMAIN D : D[d].kind = "macro" /\ D[d].name = n
      \* macro dependency: m -> every macro it references
      RECURSIVE Reach(_, _)
      Reach(S, fuel) == IF fuel = 0 THEN S
                        ELSE LET S2 == S \cup UNION {SeqSet(D[MacroDecl(m)].macrorefs) \cap macros : m \in S \cap macros}
                             IN IF S2 = S THEN S ELSE Reach(S2, fuel - 1)
      Cyclic(m) == m \in Reach(SeqSet(D[MacroDecl(m)].macrorefs) \cap macros, 20)
      \* literal aliases: a token whose whole expression is one literal
      AliasOcc(a) == Cardinality({d \in DOMAIN D : D[d].kind = "token" /\ D[d].simple = a /\ a # <<>>})
      unique == \A n \in allnames : NameOcc(n) = 1
      naming == \A d \in DOMAIN D :
                  CASE D[d].kind \in {"token", "macro"} -> LexNameOk(D[d].name)
                    [] D[d].kind = "external" -> \A i \in DOMAIN D[d].names : LexNameOk(D[d].names[i])
                    [] D[d].kind = "rule" -> RuleNameOk(D[d].name)
                    [] OTHER -> TRUE
      refs == \A d \in DOMAIN D :
                /\ \A i \in DOMAIN D[d].macrorefs : D[d].macrorefs[i] \in macros
                /\ \A i \in DOMAIN D[d].emits : D[d].emits[i] \in tokens
                /\ \A i \in DOMAIN D[d].pushes : D[d].pushes[i] = <<>> \/ D[d].pushes[i] \in modes
                /\ \A i \in DOMAIN D[d].prefs : D[d].prefs[i] \in rules \cup tokens \cup extnames
                /\ \A i \in DOMAIN D[d].aliases : AliasOcc(D[d].aliases[i]) = 1
      nocycle == \A m \in macros : NameOcc(m) = 1 => ~Cyclic(m)
      onestart == Cardinality({d \in DOMAIN D : D[d].kind = "rule" /\ D[d].start}) = 1
                  \/ ~\E d \in DOMAIN D : D[d].kind = "rule"
      actions == \A d \in DOMAIN D :
                   /\ (D[d].kind = "token" => Count(D[d].acts, "discard") = 0 /\ Count(D[d].acts, "emit") = 0)
                   /\ (D[d].kind = "frag" => Count(D[d].acts, "discard") <= 1 /\ Count(D[d].acts, "emit") <= 1)
      literals == \A d \in DOMAIN D : \A i \in DOMAIN D[d].lits : D[d].lits[i] # <<>>
      ranges == \A d \in DOMAIN D : \A i \in DOMAIN D[d].ranges : D[d].ranges[i][1] <= D[d].ranges[i][2]
  IN [unique |-> unique, naming |-> naming, refs |-> refs, nocycle |-> nocycle, onestart |-> onestart,
      actions |-> actions, literals |-> literals, ranges |-> ranges]

AllOk(w) == w.unique /\ w.naming /\ w.refs /\ w.nocycle /\ w.onestart /\ w.actions /\ w.literals /\ w.ranges

VARIABLES cid, done

Verdict(c) ==
  LET C == WCases[c]
      w == WF(C.decls)
      wf == AllOk(w)
      \* a diagnostic inside the faulty declaration (same file, line within its span)
      placed == IF C.fault = 0 \/ C.accepted THEN TRUE
                ELSE \E i \in DOMAIN C.diaglines :
                       /\ C.diaglines[i].file = C.decls[C.fault].file
                       /\ C.diaglines[i].line >= C.decls[C.fault].l1 /\ C.diaglines[i].line <= C.decls[C.fault].l2
  IN [wfv |-> "v", c |-> c - 1, wf |-> wf, rules |-> w, agree |-> (C.accepted = wf), placed |-> placed]

Init == cid \in 1..Len(WCases) /\ done = FALSE
Next == ~done /\ done' = TRUE /\ cid' = cid /\ PrintT(ToJson(Verdict(cid)))
Spec == Init /\ [][Next]_<<cid, done>>
=============================================================================
