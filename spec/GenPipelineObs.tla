--------------------------- MODULE GenPipelineObs ---------------------------
(* Observed terminal states of real lox runs must be terminal states of GenPipeline. *)
EXTENDS GenPipelineDefs

-----------------------------------------------------------------------------
(* Observations of real runs: Obs[k] = [exit, ndiag, panic, timeout, base, lexer, parser (each "fresh" | "absent" |  *)
(* "broken"), want (name of the stage that must fail, "" = unknown, "none" = must succeed)]                          *)
Obs == JsonDeserialize("pipeline_obs.json")

FilesOf(o) == {f \in {"base", "lexer", "parser"} : o[f] = "fresh"}
RECURSIVE WrittenBefore(_)
WrittenBefore(k) == IF k = 0 THEN {} ELSE WrittenBefore(k - 1) \cup Writes[Stages[k]]

\* is the observation a terminal state of some behaviour of PSpec?
ExplainedBy(o, k) ==       \* failure at stage k
  /\ o.exit # 0 /\ o.ndiag >= 1
  /\ FilesOf(o) = WrittenBefore(k - 1)
  /\ \A f \in {"base", "lexer", "parser"} : o[f] # "broken"
Success(o) == o.exit = 0 /\ FilesOf(o) = {"base", "lexer", "parser"}

StageIndex(name) == CHOOSE k \in DOMAIN Stages : Stages[k] = name

Verdict(o) ==
  IF o.panic # "" THEN "panic"
  ELSE IF o.timeout THEN "hang"
  ELSE IF o.want = "none" THEN (IF Success(o) THEN "ok" ELSE "rejects-valid")
  ELSE IF o.want # "" THEN (IF ExplainedBy(o, StageIndex(o.want)) THEN "ok"
                            ELSE IF \E k \in DOMAIN Stages : ExplainedBy(o, k) THEN "wrong-stage"
                            ELSE IF Success(o) THEN "accepts-faulty" ELSE "unexplained")
  ELSE IF Success(o) \/ \E k \in DOMAIN Stages : ExplainedBy(o, k) THEN "ok"
  ELSE IF o.exit = 0 THEN "exit0-partial-output"
  ELSE IF o.ndiag = 0 THEN "silent-failure"
  ELSE "unexplained"

VARIABLES k, fin
OInit == k \in 1..Len(Obs) /\ fin = FALSE
ONext == /\ ~fin /\ fin' = TRUE /\ k' = k
         /\ IF Verdict(Obs[k]) = "ok" THEN TRUE ELSE PrintT(ToJson([gp |-> Verdict(Obs[k]), k |-> k - 1]))
OSpec == OInit /\ [][ONext]_<<k, fin>>
=============================================================================
