--------------------------- MODULE LALRConstruct ---------------------------
(***************************************************************************)
(* lox's LALR(1) construction as it is written (internal/parsergen/lr1/    *)
(* construct.go `ConstructLALR`): a merge-as-you-go worklist, not the      *)
(* canonical-collection-then-merge of LALR.tla.                            *)
(*   states, keyed by their LR(0) kernel (LR0Key)                          *)
(*   a round processes the pending keys in sorted order; for every state   *)
(*   and every next symbol in *name* order it computes Goto(from, sym) on  *)
(*   the state's *current* items, merges the result into the state with    *)
(*   the same kernel (or creates it) and queues that state again when it   *)
(*   gained items                                                          *)
(* One step = one (state, symbol) visit, the unit the verif-tag hook       *)
(* `verifTrace` reports.  Checked: the loop terminates and ends with the   *)
(* reference LALR(1) automaton (LALR.tla); every recorded visit of the     *)
(* real code is the model's next visit (trace validation).                 *)
(*                                                                         *)
(* KCases[c] = [g (grammar with names), trace |-> <<[from, sym, to, new,   *)
(*              changed, items]>>]                                         *)
(***************************************************************************)
EXTENDS Integers, Sequences, FiniteSets, TLC, Json, LALR

KCases == JsonDeserialize("lalrc_cases.json")

VARIABLES cid, st, queue, qi, syms, pend, trans, l, conf
vars == <<cid, st, queue, qi, syms, pend, trans, l, conf>>

G == KCases[cid].g
K == Ctx(G)
Tr == KCases[cid].trace

\* ---- LR0Key and its order (big-endian uint32 pairs compared as strings = lexicographic on the numbers)
Kernel(I) == {<<it[1], it[2]>> : it \in {it \in I : it[1] = 0 \/ it[2] # 0}}
PairLess(a, b) == a[1] < b[1] \/ (a[1] = b[1] /\ a[2] < b[2])
RECURSIVE SortPairs(_)
SortPairs(S) == IF S = {} THEN <<>> ELSE LET m == CHOOSE x \in S : \A y \in S : x = y \/ PairLess(x, y)
                                         IN <<m>> \o SortPairs(S \ {m})
KeyOf(I) == SortPairs(Kernel(I))
RECURSIVE SeqLess(_, _)
SeqLess(a, b) == IF a = <<>> THEN b # <<>>
                 ELSE IF b = <<>> THEN FALSE
                 ELSE IF Head(a) = Head(b) THEN SeqLess(Tail(a), Tail(b))
                 ELSE PairLess(Head(a), Head(b))
RECURSIVE SortKeys(_)
SortKeys(S) == IF S = {} THEN <<>> ELSE LET m == CHOOSE x \in S : \A y \in S : x = y \/ SeqLess(x, y)
                                        IN <<m>> \o SortKeys(S \ {m})

\* ---- symbols in the order of Next(): by name; names are sequences of code points in G.tnames / G.rnames
NameOf(x) == IF x.t = 1 THEN G.tnames[x.i + 1] ELSE G.rnames[x.i + 1]
RECURSIVE CodeLess(_, _)
CodeLess(a, b) == IF a = <<>> THEN b # <<>>
                  ELSE IF b = <<>> THEN FALSE
                  ELSE IF Head(a) = Head(b) THEN CodeLess(Tail(a), Tail(b))
                  ELSE Head(a) < Head(b)
RECURSIVE SortSyms(_)
SortSyms(S) == IF S = {} THEN <<>> ELSE LET m == CHOOSE x \in S : \A y \in S : x = y \/ CodeLess(NameOf(x), NameOf(y))
                                        IN <<m>> \o SortSyms(S \ {m})

IndexOfKey(k) == CHOOSE i \in DOMAIN st : st[i].key = k
HasKey(k) == \E i \in DOMAIN st : st[i].key = k

Init ==
  /\ cid \in 1..Len(KCases)
  /\ LET s0 == Closure(Ctx(KCases[cid].g), {<<0, 0, 0>>}) IN
     /\ st = <<[key |-> KeyOf(s0), items |-> s0]>>
     /\ queue = <<KeyOf(s0)>>
     /\ syms = SortSyms(NextSyms(Ctx(KCases[cid].g), s0))
  /\ qi = 1 /\ pend = {} /\ trans = {} /\ l = 1 /\ conf = "run"

\* one (state, symbol) visit
Visit ==
  /\ conf = "run" /\ qi <= Len(queue) /\ syms # <<>>
  /\ LET fi == IndexOfKey(queue[qi])
         x == Head(syms)
         to == Goto(K, st[fi].items, x)
         tk == KeyOf(to)
         isNew == ~HasKey(tk)
         ti == IF isNew THEN Len(st) + 1 ELSE IndexOfKey(tk)
         changed == isNew \/ ~(to \subseteq st[ti].items)
         st2 == IF isNew THEN Append(st, [key |-> tk, items |-> to])
                ELSE [st EXCEPT ![ti].items = @ \cup to]
         ev == [from |-> fi - 1, sym |-> NameOf(x), to |-> ti - 1, new |-> isNew, changed |-> changed,
                items |-> Cardinality(st2[ti].items)]
     IN /\ st' = st2
        /\ pend' = IF changed THEN pend \cup {tk} ELSE pend
        /\ trans' = trans \cup {<<fi - 1, x, ti - 1>>}
        /\ syms' = Tail(syms)
        /\ IF Len(Tr) = 0 THEN l' = l /\ conf' = conf            \* no recorded trace: model only
           ELSE IF l <= Len(Tr) /\ Tr[l] = ev THEN l' = l + 1 /\ conf' = conf
           ELSE /\ l' = l /\ conf' = "mismatch"
                /\ PrintT(ToJson([lc |-> "mismatch", c |-> cid - 1, l |-> l, model |-> ev,
                                  real |-> IF l <= Len(Tr) THEN Tr[l] ELSE [none |-> TRUE]]))
  /\ UNCHANGED <<cid, queue, qi>>

\* next state of the round, or next round
Advance ==
  /\ conf = "run" /\ qi <= Len(queue) /\ syms = <<>>
  /\ IF qi < Len(queue)
     THEN /\ qi' = qi + 1 /\ queue' = queue /\ pend' = pend
          /\ syms' = SortSyms(NextSyms(K, st[IndexOfKey(queue[qi + 1])].items))
     ELSE /\ queue' = SortKeys(pend) /\ pend' = {} /\ qi' = 1
          /\ syms' = IF pend = {} THEN <<>> ELSE SortSyms(NextSyms(K, st[IndexOfKey(SortKeys(pend)[1])].items))
  /\ UNCHANGED <<cid, st, trans, l, conf>>

Done == conf = "run" /\ (queue = <<>> \/ qi > Len(queue))

\* at the end: the automaton is the reference LALR(1) automaton
Finish ==
  /\ Done
  /\ conf' = "done"
  /\ LET ref == LALRStates(LR1(K))
         mine == {st[i].items : i \in DOMAIN st}
         transOk == \A tr \in trans : st[tr[3] + 1].items = MGoto(K, ref, st[tr[1] + 1].items, tr[2])
         ok == mine = ref /\ (mine = ref => transOk)
         traced == Len(Tr) = 0 \/ l = Len(Tr) + 1
     IN PrintT(ToJson([lc |-> "end", c |-> cid - 1, isLALR |-> ok, traced |-> traced, states |-> Len(st), visits |-> l - 1]))
  /\ UNCHANGED <<cid, st, queue, qi, syms, pend, trans, l>>

Next == Visit \/ Advance \/ Finish
Spec == Init /\ [][Next]_vars /\ WF_vars(Next)
Terminates == <>(conf \in {"done", "mismatch"})
=============================================================================
