--------------------------- MODULE StableMapTrace ---------------------------
(***************************************************************************)
(* Trace validation of the real stablemap.Map / MultiMap against StableMap.*)
(* SMTraces[t] = <<[op, k, v, keys, vals, len, has, get]>> : the operation *)
(* applied (harness/cmd/smapt) and what the real map shows after it.       *)
(* "add" is MultiMap.Add.  Values are sequences throughout (one element    *)
(* for Map.Put), <<>> stands for the zero value / no list.                 *)
(***************************************************************************)
EXTENDS StableMap, Json, TLC

SMTraces == JsonDeserialize("smap_traces.json")
Universe == JsonDeserialize("smap_universe.json")     \* the keys probed with Has / Get after every step

VARIABLES t, i, conf
tvars == <<vars, t, i, conf>>

TInit == t \in 1..Len(SMTraces) /\ m = <<>> /\ n = 0 /\ i = 1 /\ conf = "run"

E == SMTraces[t][i]

Apply ==
  CASE E.op = "put" -> m' = IF Has(E.k) THEN [m EXCEPT ![Idx(E.k)] = <<E.k, <<E.v>>>>] ELSE Append(m, <<E.k, <<E.v>>>>)
    [] E.op = "add" -> m' = IF Has(E.k) THEN [m EXCEPT ![Idx(E.k)] = <<E.k, Append(m[Idx(E.k)][2], E.v)>>]
                            ELSE Append(m, <<E.k, <<E.v>>>>)
    [] E.op = "remove" -> m' = IF Has(E.k) THEN RemoveAt(m, Idx(E.k)) ELSE m
    [] E.op = "clear" -> m' = <<>>

ObsOk ==
  /\ E.keys = KeySeq' /\ E.vals = ValSeq' /\ E.len = Len(m')
  /\ \A j \in DOMAIN Universe :
       LET k == Universe[j] IN E.has[j] = Has(k)' /\ E.get[j] = Get(k)'

TStep ==
  /\ conf = "run" /\ i <= Len(SMTraces[t])
  /\ t' = t /\ n' = n
  /\ Apply
  /\ IF ObsOk THEN i' = i + 1 /\ conf' = conf
     ELSE /\ i' = i /\ conf' = "rejected"
          /\ PrintT(ToJson([sm |-> "rejected", t |-> t - 1, i |-> i - 1, model |-> [keys |-> KeySeq', vals |-> ValSeq'], obs |-> E]))

TSpec == TInit /\ [][TStep]_tvars
=============================================================================
