---------------------------- MODULE GenDirTrace ----------------------------
(***************************************************************************)
(* Trace validation of real generator histories against GenDir.            *)
(* Hist[h] = [init |-> spec, steps |-> <<[op, cwd, rep, s, f, k,           *)
(*            obs |-> [base, lexer, parser, exit, report]]>>]              *)
(* Every step must be the named GenDir action and the directory observed   *)
(* after it (file classes, exit status, report class) must be the model's  *)
(* post-state.  One line per history that is rejected.                     *)
(***************************************************************************)
EXTENDS GenDir, Json

Hist == JsonDeserialize("gendir_hist.json")

VARIABLES h, i, conf
tvars == <<vars, h, i, conf>>

TInit ==
  /\ h \in 1..Len(Hist)
  /\ src = Hist[h].init /\ gen = [f \in Files |-> "absent"]
  /\ last = [op |-> "init", exit |-> 0, report |-> "none"] /\ steps = 0
  /\ i = 1 /\ conf = "run"

E == Hist[h].steps[i]
\* an observed class is the list of everything the bytes equal: "absent" / "junk" / "pkgx" / "other", or every
\* specification s with bytes = Out(s) (sibling specifications share some of their files byte for byte)
Has(l, x) == \E k \in DOMAIN l : l[k] = x
ObsOk(o) == /\ Has(o.base, gen'["base"]) /\ Has(o.lexer, gen'["lexer"]) /\ Has(o.parser, gen'["parser"])
            /\ (last'.op = "gen" => (last'.exit = 0) = (o.exit = 0) /\ Has(o.report, last'.report))

Act ==
  CASE E.op = "gen" -> Gen(E.cwd, E.rep)
    [] E.op = "set" -> SetSource(E.s)
    [] E.op = "del" -> Delete(E.f)
    [] E.op = "corrupt" -> Corrupt(E.f, E.k)
    [] E.op = "stale" -> Stale(E.f, E.s)

TStep ==
  /\ conf = "run" /\ i <= Len(Hist[h].steps)
  /\ h' = h
  /\ IF ENABLED Act
     THEN /\ Act
          /\ IF ObsOk(E.obs) THEN i' = i + 1 /\ conf' = conf
             ELSE /\ i' = i /\ conf' = "rejected"
                  /\ PrintT(ToJson([gd |-> "rejected", h |-> h - 1, i |-> i - 1, model |-> [gen |-> gen', last |-> last'], obs |-> E.obs]))
     ELSE /\ UNCHANGED <<vars, i>> /\ conf' = "notenabled"
          /\ PrintT(ToJson([gd |-> "notenabled", h |-> h - 1, i |-> i - 1]))

TSpec == TInit /\ [][TStep]_tvars
=============================================================================
