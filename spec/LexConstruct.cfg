CONSTANT Det = TRUE
SPECIFICATION SpecSafe
CHECK_DEADLOCK FALSE
