---------------------------- MODULE GenPipelineDefs ----------------------------
(***************************************************************************)
(* One generator run (cmd/lox + internal/codegen.Generate) as a pipeline   *)
(* of stages, each of which may fail:                                      *)
(*   ParseLox -> PreParseGo -> EmitBase -> EmitLexer -> ParseGo ->         *)
(*   AssignActions -> EmitParser                                           *)
(* State: the stage reached, which generated files have been written,      *)
(* how many diagnostics were printed, the exit status.  The property C12   *)
(* is the set of terminal states this machine can reach: Success (all      *)
(* three files written, exit 0) or Failed (>= 1 diagnostic, exit # 0).     *)
(* A panic, a hang, exit 0 with missing output, or a silent failure are    *)
(* not behaviours.  Config faults carry the stage that has to fail.        *)
(***************************************************************************)
EXTENDS Integers, Sequences, FiniteSets, TLC, Json

Stages == <<"ParseLox", "PreParseGo", "EmitBase", "EmitLexer", "ParseGo", "AssignActions", "EmitParser">>
Writes == [ParseLox |-> {}, PreParseGo |-> {}, EmitBase |-> {"base"}, EmitLexer |-> {"lexer"},
           ParseGo |-> {}, AssignActions |-> {}, EmitParser |-> {"parser"}]

=============================================================================
