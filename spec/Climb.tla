------------------------------- MODULE Climb -------------------------------
(***************************************************************************)
(* Operator-precedence grouping by precedence climbing, the documented     *)
(* meaning of @left(n) / @right(n): a higher n binds tighter; on one level *)
(* @left groups left-to-right, @right groups right-to-left.  An expression *)
(* over token positions i..j-1 is split at its weakest top-level operator: *)
(* the rightmost occurrence for a @left level, the leftmost for @right.    *)
(*                                                                         *)
(* Ops[t] = [lvl, assoc] for operator terminals; LP, RP, ATOM terminals.   *)
(* Trees are uniform 4-tuples <<kind, index, left, right>>: "a" atom at i,  *)
(* "p" parentheses, "f" unqualified alternative K ( e ), "b" binary at op k *)
(***************************************************************************)
EXTENDS Integers, Sequences, FiniteSets

RECURSIVE DepthAt(_, _, _, _, _)
\* parenthesis depth before position k (positions are 1-based here), scanning from i
DepthAt(w, LP, RP, i, k) ==
  IF i >= k THEN 0
  ELSE DepthAt(w, LP, RP, i + 1, k) + (IF w[i] = LP THEN 1 ELSE IF w[i] = RP THEN -1 ELSE 0)

\* operator positions of w[i..j] at parenthesis depth 0
TopOps(w, OpSet, LP, RP, i, j) ==
  {k \in i..j : w[k] \in OpSet /\ DepthAt(w, LP, RP, i, k) = 0}

RECURSIVE Tree(_, _, _, _, _, _, _)
\* AllLeft = TRUE gives the tree of a parser that treats every level as @left
Tree(w, Lvl, Asc, LP, RP, AllLeft, ij) ==
  LET i == ij[1]
      j == ij[2]
      OpSet == DOMAIN Lvl
      tops == TopOps(w, OpSet, LP, RP, i, j)
  IN IF tops = {}
     THEN IF i = j THEN <<"a", i - 1, <<>>, <<>>>>
          ELSE IF w[i] = LP THEN <<"p", 0, Tree(w, Lvl, Asc, LP, RP, AllLeft, <<i + 1, j - 1>>), <<>>>>
          ELSE <<"f", 0, Tree(w, Lvl, Asc, LP, RP, AllLeft, <<i + 2, j - 1>>), <<>>>>   \* unqualified alternative  K ( e )
     ELSE LET low == CHOOSE l \in {Lvl[w[k]] : k \in tops} : \A k \in tops : l <= Lvl[w[k]]
              cands == {k \in tops : Lvl[w[k]] = low}
              right == ~AllLeft /\ Asc[w[CHOOSE k \in cands : TRUE]] = 1
              k == IF right THEN CHOOSE k \in cands : \A q \in cands : k <= q
                   ELSE CHOOSE k \in cands : \A q \in cands : k >= q
          IN <<"b", k - 1, Tree(w, Lvl, Asc, LP, RP, AllLeft, <<i, k - 1>>),
                           Tree(w, Lvl, Asc, LP, RP, AllLeft, <<k + 1, j>>)>>
=============================================================================
