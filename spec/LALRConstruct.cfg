SPECIFICATION Spec
PROPERTY Terminates
CHECK_DEADLOCK FALSE
