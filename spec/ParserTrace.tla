----------------------------- MODULE ParserTrace -----------------------------
(***************************************************************************)
(* Trace validation: every recorded run of a real generated parser must be *)
(* a behaviour of ParserRT loaded with the tables emitted for that parser. *)
(* Runs[r] = [c, w, events, ok, panic, budget]; events are what the        *)
(* harness logged at the public linearisation points (lexer reads with the *)
(* top-of-stack state and depth, action calls with arguments and result,   *)
(* _onBounds calls, the return of parse).  Each model step must emit       *)
(* exactly the next recorded events.  One verdict line per run.            *)
(***************************************************************************)
EXTENDS ParserRT, TLC

VARIABLES rid, l, conf
tvars == <<vars, rid, l, conf>>

Tr == Runs[rid].events

TraceInit ==
  /\ rid \in 1..Len(Runs)
  /\ cid = Runs[rid].c
  /\ w = Runs[rid].w /\ closed = TRUE
  /\ stack = <<>> /\ la = -1 /\ lasym = NoV /\ qla = -1 /\ qlasym = NoV
  /\ pos = 0 /\ pc = "start"
  /\ errsym = NoV /\ save = <<>> /\ rstate = 0 /\ nid = 0 /\ rec = FALSE /\ out = <<>>
  /\ l = 1 /\ conf = "run"

Verdict(kind, extra) ==
  PrintT(ToJson([tv |-> kind, r |-> rid - 1, c |-> cid - 1, l |-> l, pc |-> pc, x |-> extra]))

TraceStep ==
  /\ conf = "run" /\ pc \notin Final
  /\ Next
  /\ rid' = rid
  /\ LET n == Len(out') IN
     IF n = 0 THEN l' = l /\ conf' = conf
     ELSE IF l + n - 1 <= Len(Tr) /\ SubSeq(Tr, l, l + n - 1) = out'
     THEN l' = l + n /\ conf' = conf
     ELSE IF Runs[rid].budget /\ l + n - 1 > Len(Tr) /\ SubSeq(Tr, l, Len(Tr)) = SubSeq(out', 1, Len(Tr) - l + 1)
     THEN l' = l /\ conf' = "truncated" /\ Verdict("truncated", <<>>)
     ELSE /\ l' = l /\ conf' = "mismatch"
          /\ Verdict("mismatch", [model |-> out',
                                  real |-> SubSeq(Tr, l, IF l + n - 1 <= Len(Tr) THEN l + n - 1 ELSE Len(Tr))])

TraceEnd ==
  /\ conf = "run" /\ pc \in Final
  /\ UNCHANGED <<vars, rid, l>>
  /\ IF /\ l = Len(Tr) + 1
        /\ (pc = "panic") = (Runs[rid].panic # "")
        /\ ~Runs[rid].budget
     THEN conf' = "ok" /\ Verdict("ok", <<>>)
     ELSE conf' = "mismatch" /\ Verdict("mismatch-end", [panic |-> Runs[rid].panic, budget |-> Runs[rid].budget])

TraceNext == TraceStep \/ TraceEnd
TraceSpec == TraceInit /\ [][TraceNext]_tvars
=============================================================================
