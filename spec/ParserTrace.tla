----------------------------- MODULE ParserTrace -----------------------------
(***************************************************************************)
(* Trace validation: every recorded run of a real generated parser must be *)
(* a behaviour of ParserRT loaded with the tables emitted for that parser. *)
(* Runs[r] = [c, w, events, ok, panic, budget]; events are what the        *)
(* harness logged at the public linearisation points (lexer reads with the *)
(* top-of-stack state and depth, action calls with arguments and result,   *)
(* _onBounds calls, the return of parse).  Each model step must emit       *)
(* exactly the next recorded events.  One verdict line per run.            *)
(***************************************************************************)
EXTENDS ParserRT, TLC, Json

VARIABLES rid, l, conf
tvars == <<vars, rid, l, conf>>

Tr == Runs[rid].events

TraceInit ==
  /\ rid \in 1..Len(Runs)
  /\ cid = Runs[rid].c
  /\ w = Runs[rid].w /\ closed = TRUE
  /\ stack = <<>> /\ la = -1 /\ lasym = NoV /\ qla = -1 /\ qlasym = NoV
  /\ pos = 0 /\ pc = "start"
  /\ errsym = NoV /\ save = <<>> /\ rstate = 0 /\ nid = 0 /\ rec = FALSE /\ lost = {} /\ out = <<>>
  /\ l = 1 /\ conf = "run"

Ds == [c \in 1..Len(Cases) |-> DocDesugar(Cases[c].g)]

\* input tokens in order, stretches possibly replaced by @error (C09, last clause)
RECURSIVE Consumes(_, _, _, _, _)
Consumes(y, k, ww, c, gap) ==
  IF k > Len(y) THEN c = Len(ww) \/ gap
  ELSE IF y[k][1] = "x" THEN Consumes(y, k + 1, ww, c, TRUE)
  ELSE LET idx == y[k][2] IN
       /\ idx < Len(ww) /\ ww[idx + 1] = y[k][3]
       /\ (idx = c \/ (idx > c /\ gap))
       /\ Consumes(y, k + 1, ww, idx + 1, FALSE)

\* at accept: the symbols on the stack (what the parse consumed) form a sentence of G_E
ConsumedOk ==
  IF pc # "accept" THEN TRUE
  ELSE LET y == YieldOf(stack) IN
       /\ InLang(Ds[cid], [k \in DOMAIN y |-> y[k][3]])
       /\ Consumes(y, 1, w, 0, FALSE)

Verdict(kind, extra) ==
  PrintT(ToJson([tv |-> kind, r |-> rid - 1, c |-> cid - 1, l |-> l, pc |-> pc, x |-> extra,
                 lost |-> lost, consumed |-> IF kind = "ok" THEN ConsumedOk ELSE TRUE,
                 \* Error symbols still on the stack (shifted, not yet reduced) when the run ended
                 onstack |-> {stack[k].sym.i : k \in {q \in DOMAIN stack : stack[q].sym.k = "x"}}
                             \cup (IF pc = "fail"      \* the failing recovery popped everything: look at the stack it started from
                                   THEN {save[k].sym.i : k \in {q \in DOMAIN save : save[q].sym.k = "x"}} ELSE {})]))

TraceStep ==
  /\ conf = "run" /\ pc \notin Final
  /\ Next
  /\ rid' = rid
  /\ LET n == Len(out') IN
     IF n = 0 THEN l' = l /\ conf' = conf
     ELSE IF l + n - 1 <= Len(Tr) /\ SubSeq(Tr, l, l + n - 1) = out'
     THEN l' = l + n /\ conf' = conf
     ELSE IF Runs[rid].budget /\ l + n - 1 > Len(Tr) /\ SubSeq(Tr, l, Len(Tr)) = SubSeq(out', 1, Len(Tr) - l + 1)
     THEN l' = l /\ conf' = "truncated" /\ Verdict("truncated", <<>>)
     ELSE /\ l' = l /\ conf' = "mismatch"
          /\ Verdict("mismatch", [model |-> out',
                                  real |-> SubSeq(Tr, l, IF l + n - 1 <= Len(Tr) THEN l + n - 1 ELSE Len(Tr))])

TraceEnd ==
  /\ conf = "run" /\ pc \in Final
  /\ UNCHANGED <<vars, rid, l>>
  /\ IF /\ l = Len(Tr) + 1
        /\ (pc = "panic") = (Runs[rid].panic # "")
        /\ ~Runs[rid].budget
     THEN conf' = "ok" /\ Verdict("ok", <<>>)
     ELSE conf' = "mismatch" /\ Verdict("mismatch-end", [panic |-> Runs[rid].panic, budget |-> Runs[rid].budget])

TraceNext == TraceStep \/ TraceEnd
TraceSpec == TraceInit /\ [][TraceNext]_tvars
=============================================================================
