------------------------------ MODULE ClimbObs ------------------------------
(***************************************************************************)
(* C05: the tree built by the actions of a real generated parser for every *)
(* operator/operand sequence, against Climb!Tree.                          *)
(* Cases[c] = [ops |-> <<[t, lvl, assoc]>>, lp, rp, atom, off]              *)
(*   off = 1: the judged rule sits behind one leading token (s = DEC t)    *)
(* Runs[r]  = [c, w, ok, events]                                           *)
(***************************************************************************)
EXTENDS Integers, Sequences, FiniteSets, TLC, Json, Climb

Cases == JsonDeserialize("climb_cases.json")
Runs == JsonDeserialize("climb_runs.json")

VARIABLES rid, done

RECURSIVE Filter(_)
Filter(evs) == IF evs = <<>> THEN <<>>
               ELSE IF Head(evs).e = "act" THEN <<Head(evs)>> \o Filter(Tail(evs)) ELSE Filter(Tail(evs))

RECURSIVE RealTree(_, _, _)
\* rebuild the tree from the recorded action calls (node id -> arguments)
RealTree(acts, C, id) ==
  LET a == acts[id + 1].args
  IN IF Len(a) = 2 /\ a[1].k = "t" /\ a[2].k # "t" THEN RealTree(acts, C, a[2].i)     \* s = DEC t : the other rule of a two-rule table
     ELSE IF Len(a) = 1 THEN (IF a[1].k = "t" THEN <<"a", a[1].i, <<>>, <<>>>> ELSE RealTree(acts, C, a[1].i))
     ELSE IF Len(a) = 3 /\ a[1].k = "t" /\ a[1].ty = C.lp THEN <<"p", 0, RealTree(acts, C, a[2].i), <<>>>>
     ELSE IF Len(a) = 3 /\ a[2].k = "t" THEN <<"b", a[2].i, RealTree(acts, C, a[1].i), RealTree(acts, C, a[3].i)>>
     ELSE IF Len(a) = 4 THEN <<"f", 0, RealTree(acts, C, a[3].i), <<>>>>
     ELSE <<"?", id, <<>>, <<>>>>

Check ==
  LET R == Runs[rid]
      C == Cases[R.c]
      opset == {C.ops[k].t : k \in DOMAIN C.ops}
      Lvl == [t \in opset |-> (CHOOSE k \in DOMAIN C.ops : C.ops[k].t = t)]
      LvlF == [t \in opset |-> C.ops[Lvl[t]].lvl]
      AscF == [t \in opset |-> C.ops[Lvl[t]].assoc]
      acts == Filter(R.events)
      want == Tree(R.w, LvlF, AscF, C.lp, C.rp, FALSE, <<1 + C.off, Len(R.w)>>)
      allleft == Tree(R.w, LvlF, AscF, C.lp, C.rp, TRUE, <<1 + C.off, Len(R.w)>>)
      got == IF R.ok /\ acts # <<>> THEN RealTree(acts, C, Len(acts) - 1) ELSE <<"rejected", 0, <<>>, <<>>>>
  IN IF got = want THEN TRUE
     ELSE PrintT(ToJson([climb |-> "bad", r |-> rid - 1, c |-> R.c - 1, got |-> got, want |-> want,
                         isallleft |-> (got = allleft)]))

Init == rid \in 1..Len(Runs) /\ done = FALSE
Next == ~done /\ done' = TRUE /\ rid' = rid /\ Check
Spec == Init /\ [][Next]_<<rid, done>>
=============================================================================
