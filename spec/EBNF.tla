-------------------------------- MODULE EBNF --------------------------------
(***************************************************************************)
(* Lemma tying CFG!DocDesugar (the rewriting printed in the reference      *)
(* manual) to the direct reading of the sugar: x? is x or nothing, x* any  *)
(* number of x, x+ at least one, @list(x, s) = x (s x)*, @list(x, s)? that *)
(* or nothing, x*! like x*.  The direct reading is the closure of the      *)
(* element relation over string positions, with no helper rules at all.    *)
(* TLC checks, for every sugar kind, element shape (terminal; rule with    *)
(* alternatives of length 1 and 2; nullable rule is excluded because lox   *)
(* reports a conflict for it) and every string up to MaxLen over a         *)
(* 3-letter alphabet, in first / middle / last position of a production,   *)
(* that both readings agree.                                               *)
(***************************************************************************)
EXTENDS Integers, Sequences, FiniteSets, TLC, CFG

MaxLen == 5
Alpha == {2, 3, 4}        \* terminals A B C (numbers as in generated code)

RECURSIVE Strings(_)
Strings(n) == IF n = 0 THEN {<<>>} ELSE Strings(n - 1) \cup {Append(s, a) : s \in {t \in Strings(n - 1) : Len(t) = n - 1}, a \in Alpha}

Kinds == {"opt", "star", "starF", "plus", "list", "listopt"}
\* element: terminal A (t=1,i=0) or rule x (t=0,i=1) with  x = A | B C ; separator: terminal B or rule y = C
Elems == {[t |-> 1, i |-> 0], [t |-> 0, i |-> 1]}
Seps == {[t |-> 1, i |-> 1], [t |-> 0, i |-> 2]}
Positions == {"alone", "first", "middle", "last"}

Term(k, e, s) == [k |-> k, t |-> e.t, i |-> e.i, st |-> s.t, si |-> s.i]
Sym0(t, i) == [k |-> "sym", t |-> t, i |-> i, st |-> 0, si |-> 0]
TermC == Sym0(1, 2)       \* terminal C used as context

G(k, e, s, pos) ==
  LET T == Term(k, e, s)
      rhs == CASE pos = "alone" -> <<T>> [] pos = "first" -> <<T, TermC>>
               [] pos = "middle" -> <<TermC, T, TermC>> [] pos = "last" -> <<TermC, T>>
  IN [terms |-> <<"A", "B", "C">>,
      rules |-> << [name |-> "s", prods |-> << [terms |-> rhs, prec |-> 0, assoc |-> 0] >>],
                   [name |-> "x", prods |-> << [terms |-> <<Sym0(1, 0)>>, prec |-> 0, assoc |-> 0],
                                               [terms |-> <<Sym0(1, 1), Sym0(1, 2)>>, prec |-> 0, assoc |-> 0] >>],
                   [name |-> "y", prods |-> << [terms |-> <<Sym0(1, 2)>>, prec |-> 0, assoc |-> 0] >>] >>,
      start |-> 0]

\* ---- the direct reading
ElemAt(w, e, i, j) ==      \* w[i+1..j] is one element
  IF e.t = 1 THEN j = i + 1 /\ w[j] = e.i + 2
  ELSE (j = i + 1 /\ w[j] = 2) \/ (j = i + 2 /\ w[i + 1] = 3 /\ w[j] = 4)      \* x = A | B C
SepAt(w, s, i, j) == j = i + 1 /\ w[j] = (IF s.t = 1 THEN s.i + 2 ELSE 4)      \* B, or y = C

RECURSIVE ReachStar(_, _, _)
\* positions reachable from the set P by consuming elements
ReachStar(w, e, P) ==
  LET more == {j \in 0..Len(w) : \E i \in P : i < j /\ ElemAt(w, e, i, j)} \ P
  IN IF more = {} THEN P ELSE ReachStar(w, e, P \cup more)
RECURSIVE ReachList(_, _, _, _)
\* positions right after an element, starting with an element at i0, alternating separator / element
ReachList(w, e, s, P) ==
  LET more == {j \in 0..Len(w) : \E i \in P, m \in 0..Len(w) : i < m /\ m < j /\ SepAt(w, s, i, m) /\ ElemAt(w, e, m, j)} \ P
  IN IF more = {} THEN P ELSE ReachList(w, e, s, P \cup more)

\* end positions of the sugar term when it starts at i
Ends(w, k, e, s, i) ==
  LET one == {j \in 0..Len(w) : i < j /\ ElemAt(w, e, i, j)} IN
  CASE k = "opt" -> {i} \cup one
    [] k \in {"star", "starF"} -> ReachStar(w, e, {i})
    [] k = "plus" -> ReachStar(w, e, one)
    [] k = "list" -> ReachList(w, e, s, one)
    [] k = "listopt" -> {i} \cup ReachList(w, e, s, one)

Direct(w, k, e, s, pos) ==
  LET n == Len(w)
      cAt(i) == i < n /\ w[i + 1] = 4
  IN CASE pos = "alone" -> n \in Ends(w, k, e, s, 0)
       [] pos = "first" -> n >= 1 /\ w[n] = 4 /\ (n - 1) \in Ends(w, k, e, s, 0)
       [] pos = "last" -> cAt(0) /\ n \in Ends(w, k, e, s, 1)
       [] pos = "middle" -> cAt(0) /\ n >= 2 /\ w[n] = 4 /\ (n - 1) \in Ends(w, k, e, s, 1)

VARIABLES cfg, done
Configs == {<<k, e, s, p>> : k \in Kinds, e \in Elems, s \in Seps, p \in Positions}
Init == cfg \in Configs /\ done = FALSE
Next == /\ ~done /\ done' = TRUE /\ cfg' = cfg
        /\ LET D == DocDesugar(G(cfg[1], cfg[2], cfg[3], cfg[4]))
               bad == {w \in Strings(MaxLen) : InLang(D, w) # Direct(w, cfg[1], cfg[2], cfg[3], cfg[4])}
           IN IF bad = {} THEN TRUE ELSE PrintT(<<"EBNF-LEMMA-FAILS", cfg, CHOOSE w \in bad : TRUE>>)
Spec == Init /\ [][Next]_<<cfg, done>>
=============================================================================
