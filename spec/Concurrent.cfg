SPECIFICATION Spec
PROPERTIES TablesNeverWritten Independent
CHECK_DEADLOCK FALSE
