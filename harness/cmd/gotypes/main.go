// gotypes computes Go's assignability and identity relations (go/types) for a
// list of type expressions in the context of a declarations file. The
// relations are handed to TLC as constants of Binding.tla.
package main

import (
	"encoding/json"
	"fmt"
	"go/ast"
	"go/importer"
	"go/parser"
	"go/token"
	"go/types"
	"os"
)

type in struct {
	Decls string   `json:"decls"`
	Types []string `json:"types"`
}

type out struct {
	Assignable [][]bool `json:"assignable"` // [from][to]
	Identical  [][]bool `json:"identical"`
}

func main() {
	var x in
	if err := json.NewDecoder(os.Stdin).Decode(&x); err != nil {
		panic(err)
	}
	src := x.Decls + "\n"
	for i, t := range x.Types {
		src += fmt.Sprintf("var _v%d %s\n", i, t)
	}
	fset := token.NewFileSet()
	f, err := parser.ParseFile(fset, "u.go", src, 0)
	if err != nil {
		fmt.Fprintln(os.Stderr, err)
		os.Exit(2)
	}
	conf := types.Config{Importer: importer.Default()}
	pkg, err := conf.Check("u", fset, []*ast.File{f}, nil)
	if err != nil {
		fmt.Fprintln(os.Stderr, err)
		os.Exit(2)
	}
	ts := make([]types.Type, len(x.Types))
	for i := range x.Types {
		ts[i] = pkg.Scope().Lookup(fmt.Sprintf("_v%d", i)).Type()
	}
	var o out
	for i := range ts {
		ra, ri := make([]bool, len(ts)), make([]bool, len(ts))
		for j := range ts {
			ra[j] = types.AssignableTo(ts[i], ts[j])
			ri[j] = types.Identical(ts[i], ts[j])
		}
		o.Assignable = append(o.Assignable, ra)
		o.Identical = append(o.Identical, ri)
	}
	json.NewEncoder(os.Stdout).Encode(o)
}
