// inventory lists the package-level variables of generated Go files and every
// place where a function body assigns to one of them (directly, through an
// index / slice expression, ++/--, or by taking its address).
package main

import (
	"encoding/json"
	"go/ast"
	"go/parser"
	"go/token"
	"os"
)

type out struct {
	File    string   `json:"file"`
	Vars    []string `json:"vars"`
	Writes  []string `json:"writes"`
	Err     string   `json:"err"`
}

func root(e ast.Expr) *ast.Ident {
	for {
		switch x := e.(type) {
		case *ast.Ident:
			return x
		case *ast.IndexExpr:
			e = x.X
		case *ast.SliceExpr:
			e = x.X
		case *ast.ParenExpr:
			e = x.X
		case *ast.StarExpr:
			e = x.X
		case *ast.SelectorExpr:
			e = x.X
		default:
			return nil
		}
	}
}

func main() {
	var res []out
	for _, fn := range os.Args[1:] {
		o := out{File: fn, Vars: []string{}, Writes: []string{}}
		fset := token.NewFileSet()
		f, err := parser.ParseFile(fset, fn, nil, 0)
		if err != nil {
			o.Err = err.Error()
			res = append(res, o)
			continue
		}
		globals := map[*ast.ValueSpec]bool{}
		for _, d := range f.Decls {
			gd, ok := d.(*ast.GenDecl)
			if !ok || gd.Tok != token.VAR {
				continue
			}
			for _, s := range gd.Specs {
				vs := s.(*ast.ValueSpec)
				globals[vs] = true
				for _, n := range vs.Names {
					o.Vars = append(o.Vars, n.Name)
				}
			}
		}
		note := func(e ast.Expr, pos token.Pos) {
			id := root(e)
			if id == nil || id.Obj == nil {
				return
			}
			if vs, ok := id.Obj.Decl.(*ast.ValueSpec); ok && globals[vs] {
				o.Writes = append(o.Writes, id.Name+"@"+fset.Position(pos).String())
			}
		}
		for _, d := range f.Decls {
			fd, ok := d.(*ast.FuncDecl)
			if !ok || fd.Body == nil {
				continue
			}
			ast.Inspect(fd.Body, func(n ast.Node) bool {
				switch s := n.(type) {
				case *ast.AssignStmt:
					if s.Tok != token.DEFINE {
						for _, l := range s.Lhs {
							note(l, s.Pos())
						}
					}
				case *ast.IncDecStmt:
					note(s.X, s.Pos())
				case *ast.UnaryExpr:
					if s.Op == token.AND {
						note(s.X, s.Pos())
					}
				}
				return true
			})
		}
		res = append(res, o)
	}
	json.NewEncoder(os.Stdout).Encode(res)
}
