// rang3t calls the real rang3.Normalize / Flatten / Subtract on lists of
// ranges and records the onChange events and the results.
package main

import (
	"encoding/json"
	"os"

	"github.com/dcaiafa/lox/internal/lexergen/rang3"
)

type tcase struct {
	A [][2]int `json:"a"`
	B [][2]int `json:"b"`
}

type out struct {
	Events  [][4][2]int `json:"events"` // o, a, b, c
	Flat    [][2]int    `json:"flat"`
	FlatEv  [][3][2]int `json:"flatev"`
	Sub     [][2]int    `json:"sub"`
	Panic   string      `json:"panic"`
}

func rs(x [][2]int) []rang3.Range {
	r := make([]rang3.Range, len(x))
	for i, v := range x {
		r[i] = rang3.Range{B: rune(v[0]), E: rune(v[1])}
	}
	return r
}
func back(x []rang3.Range) [][2]int {
	r := make([][2]int, len(x))
	for i, v := range x {
		r[i] = [2]int{int(v.B), int(v.E)}
	}
	return r
}
func p(r rang3.Range) [2]int { return [2]int{int(r.B), int(r.E)} }

func one(c tcase) (o out) {
	defer func() {
		if e := recover(); e != nil {
			o.Panic = "panic"
		}
	}()
	o.Events = [][4][2]int{}
	o.FlatEv = [][3][2]int{}
	n := 0
	rang3.Normalize(rs(c.A), func(x, a, b, cc rang3.Range) {
		n++
		if n > 10000 {
			panic("too many events")
		}
		o.Events = append(o.Events, [4][2]int{p(x), p(a), p(b), p(cc)})
	})
	o.Flat = back(rang3.Flatten(rs(c.A), func(oa, ob, nn rang3.Range) {
		o.FlatEv = append(o.FlatEv, [3][2]int{p(oa), p(ob), p(nn)})
	}))
	o.Sub = back(rang3.Subtract(rs(c.A), rs(c.B)))
	return
}

func main() {
	var cases []tcase
	f, _ := os.Open(os.Args[1])
	if err := json.NewDecoder(f).Decode(&cases); err != nil {
		panic(err)
	}
	outs := make([]out, len(cases))
	for i, c := range cases {
		outs[i] = one(c)
	}
	json.NewEncoder(os.Stdout).Encode(outs)
}
