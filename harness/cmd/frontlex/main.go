//go:build verif

// frontlex records, for a list of .lox texts, the raw token types of lox's own
// generated lexer and the token types its line-continuation wrapper hands to
// the parser (internal/parser.VerifTokens, a verif-tag hook).
package main

import (
	"encoding/json"
	"os"

	"github.com/dcaiafa/lox/internal/parser"
)

type out struct {
	Raw     []int  `json:"raw"`
	Wrapped []int  `json:"wrapped"`
	Panic   string `json:"panic"`
}

func one(text []int) (o out) {
	defer func() {
		if e := recover(); e != nil {
			o.Panic = "panic"
		}
	}()
	b := make([]byte, len(text))
	for i, v := range text {
		b[i] = byte(v)
	}
	o.Raw, o.Wrapped = parser.VerifTokens(b)
	return
}

func main() {
	var texts [][]int
	f, _ := os.Open(os.Args[1])
	if err := json.NewDecoder(f).Decode(&texts); err != nil {
		panic(err)
	}
	names := map[string]int{}
	for t := 0; t < 200; t++ {
		n := parser.VerifTokenName(t)
		if n != "???" {
			names[n] = t
		}
	}
	outs := make([]out, len(texts))
	for i, t := range texts {
		outs[i] = one(t)
	}
	json.NewEncoder(os.Stdout).Encode(map[string]any{"names": names, "outs": outs})
}
