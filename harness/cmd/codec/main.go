//go:build verif

// codec feeds TLC-enumerated row sequences to lox's real table codec
// (exported by internal/codegen/export_verif.go under the verif tag).
package main

import (
	"encoding/json"
	"os"

	"github.com/dcaiafa/lox/internal/codegen"
)

type tcase struct {
	Idx  []int     `json:"idx"`
	Rows [][]int64 `json:"rows"`
}

type out struct {
	I32   []int64 `json:"i32"`
	U32   []int64 `json:"u32"`
	Panic string  `json:"panic"`
}

func one(c tcase) (o out) {
	defer func() {
		if e := recover(); e != nil {
			o.Panic = "panic"
		}
	}()
	r32 := make([][]int32, len(c.Rows))
	ru := make([][]uint32, len(c.Rows))
	for i, r := range c.Rows {
		for _, v := range r {
			r32[i] = append(r32[i], int32(v))
			ru[i] = append(ru[i], uint32(v))
		}
	}
	o.I32, o.U32 = []int64{}, []int64{}
	for _, v := range codegen.VerifEncodeTable(c.Idx, r32) {
		o.I32 = append(o.I32, int64(v))
	}
	for _, v := range codegen.VerifEncodeTableU(c.Idx, ru) {
		o.U32 = append(o.U32, int64(int32(v))) // TLC integers are 32-bit: uint32 values are reinterpreted as int32
	}
	return
}

func main() {
	var cases []tcase
	f, _ := os.Open(os.Args[1])
	if err := json.NewDecoder(f).Decode(&cases); err != nil {
		panic(err)
	}
	outs := make([]out, len(cases))
	for i, c := range cases {
		outs[i] = one(c)
	}
	json.NewEncoder(os.Stdout).Encode(outs)
}
