//go:build verif

// dump runs lox's front-end and constructions in-process on a set of
// directories holding .lox files and prints, per directory, one JSON line:
// the grammar lox built, the LALR automaton with every candidate action, the
// conflict verdict, the lexer DFAs of every mode and the diagnostics.
// It imports lox's internal packages from the working tree (module path
// github.com/dcaiafa/lox/xverif, replace => /repo).
package main

import (
	"bufio"
	"bytes"
	"encoding/json"
	"fmt"
	gotoken "go/token"
	"os"
	"path/filepath"
	"sort"
	"strings"
	"sync"

	"github.com/dcaiafa/lox/internal/ast"
	"github.com/dcaiafa/lox/internal/base/array"
	"github.com/dcaiafa/lox/internal/base/errlogger"
	"github.com/dcaiafa/lox/internal/lexergen/dfa"
	"github.com/dcaiafa/lox/internal/lexergen/mode"
	"github.com/dcaiafa/lox/internal/lexergen/nfa"
	"github.com/dcaiafa/lox/internal/lexergen/rang3"
	"github.com/dcaiafa/lox/internal/parser"
	"github.com/dcaiafa/lox/internal/parsergen/lr1"
)

type Sym struct {
	T int `json:"t"` // 1 terminal, 0 rule
	I int `json:"i"`
}

type Prod struct {
	Lhs   int   `json:"lhs"`
	Rhs   []Sym `json:"rhs"`
	Prec  int   `json:"prec"`
	Assoc int   `json:"assoc"`
	Line  int   `json:"line"`
}

type Action struct {
	Term  int   `json:"term"`
	Kind  int   `json:"kind"` // 0 shift 1 reduce 2 accept
	Arg   int   `json:"arg"`  // shift target / reduce prod
	Prods []int `json:"prods"`
}

type State struct {
	Items   [][3]int `json:"items"`
	Actions []Action `json:"actions"`
	Trans   [][3]int `json:"trans"` // [t, i, target]
}

type DState struct {
	Accept    bool       `json:"accept"`
	NonGreedy bool       `json:"ng"`
	Trans     [][3]int   `json:"trans"` // [lo, hi, target]
	Actions   [][2]int   `json:"actions"`
	ActModes  []string   `json:"actmodes"`
	NFA       []int      `json:"nfa"`    // IDs of the NFA states this DFA state stands for
	Pos       int        `json:"pos"`    // source position of the picked action list (-1: none)
}

// NState is one state of the (input-normalised) NFA a mode's DFA was built from.
type NState struct {
	ID     int      `json:"id"`
	Accept bool     `json:"accept"`
	NG     bool     `json:"ng"`
	HasAct bool     `json:"hasact"`
	Pos    int      `json:"pos"`
	Acts   [][2]int `json:"acts"`
	Modes  []string `json:"actmodes"`
	Eps    []int    `json:"eps"`
	Edges  [][3]int `json:"edges"` // [lo, hi, to]
}

type Mode struct {
	Name   string   `json:"name"`
	Index  int      `json:"index"`
	States []DState `json:"states"`
	NFA    []NState `json:"nfastates"`
}

type Out struct {
	Dir       string   `json:"dir"`
	Ok        bool     `json:"ok"`
	Stage     string   `json:"stage"`
	Panic     string   `json:"panic"`
	Diag      string   `json:"diag"`
	Terminals []string `json:"terminals"`
	Aliases   []string `json:"aliases"`
	Rules     []string `json:"rules"`
	Prods     []Prod   `json:"prods"`
	Conflicts bool     `json:"conflicts"`
	States    []State  `json:"states"`
	Modes     []Mode   `json:"modes"`
	NoParser  bool     `json:"noparser"`
	SkipLALR  bool     `json:"-"`
	Trace     []TraceEv `json:"trace"`
}

// TraceEv is one visit of the ConstructLALR worklist, reported by the verif-tag hook lr1.VerifTrace.
type TraceEv struct {
	From    int    `json:"from"`
	Sym     string `json:"sym"`
	To      int    `json:"to"`
	New     bool   `json:"new"`
	Changed bool   `json:"changed"`
	Items   int    `json:"items"`
}

var traceMu sync.Mutex
var wantTrace bool

func symOf(t lr1.Term) Sym {
	switch t := t.(type) {
	case *lr1.Terminal:
		return Sym{1, t.Index}
	case *lr1.Rule:
		return Sym{0, t.Index}
	}
	return Sym{-1, -1}
}

// walkNFA lists every NFA state reachable from the given ones.
func walkNFA(pending []*nfa.State) []NState {
	seen := map[*nfa.State]bool{}
	out := []NState{}
	for len(pending) > 0 {
		s := pending[len(pending)-1]
		pending = pending[:len(pending)-1]
		if seen[s] {
			continue
		}
		seen[s] = true
		ns := NState{ID: int(s.ID), Accept: s.Accept, NG: s.NonGreedy, Pos: -1, Acts: [][2]int{}, Modes: []string{}, Eps: []int{}, Edges: [][3]int{}}
		if acts, ok := s.Data.(*mode.Actions); ok && acts != nil {
			ns.HasAct = true
			ns.Pos = int(acts.Pos)
			for _, a := range acts.Actions {
				ns.Acts = append(ns.Acts, [2]int{int(a.Type), a.Terminal})
				ns.Modes = append(ns.Modes, a.Mode)
			}
		}
		s.Transitions.ForEach(func(in any, tos *array.Array[*nfa.State]) {
			for _, to := range tos.Elements() {
				pending = append(pending, to)
				if r, ok := in.(rang3.Range); ok {
					ns.Edges = append(ns.Edges, [3]int{int(r.B), int(r.E), int(to.ID)})
				} else {
					ns.Eps = append(ns.Eps, int(to.ID))
				}
			}
		})
		out = append(out, ns)
	}
	sort.Slice(out, func(i, j int) bool { return out[i].ID < out[j].ID })
	return out
}

func dumpOne(dir string, lalr bool) (out Out) {
	out.Dir = dir
	out.Stage = "start"
	defer func() {
		if e := recover(); e != nil {
			out.Panic = fmt.Sprint(e)
			out.Ok = false
		}
	}()
	var diag bytes.Buffer
	fset := gotoken.NewFileSet()
	errs := errlogger.New(fset, &diag)
	files, _ := filepath.Glob(filepath.Join(dir, "*.lox"))
	sort.Strings(files)
	spec := new(ast.Spec)
	out.Stage = "parse"
	for _, fn := range files {
		data, err := os.ReadFile(fn)
		if err != nil {
			out.Diag = err.Error()
			return
		}
		file := fset.AddFile(fn, -1, len(data))
		unit := parser.Parse(file, data, errs)
		if errs.HasError() {
			out.Diag = diag.String()
			return
		}
		spec.Units = append(spec.Units, unit)
	}
	out.Stage = "analyze"
	ctx := ast.NewContext(fset, errs)
	ctx.Analyze(spec, ast.AllPasses)
	out.Diag = diag.String()
	if errs.HasError() {
		return
	}
	g := ctx.Grammar
	for _, t := range g.Terminals {
		out.Terminals = append(out.Terminals, t.Name)
		out.Aliases = append(out.Aliases, t.Alias)
	}
	for _, r := range g.Rules {
		out.Rules = append(out.Rules, r.Name)
	}
	for _, p := range g.Prods {
		pp := Prod{Lhs: p.Rule.Index, Prec: p.Precedence, Assoc: int(p.Associativity), Rhs: []Sym{}}
		if p.Position.IsValid() {
			pp.Line = fset.Position(p.Position).Line
		}
		for _, t := range p.Terms {
			pp.Rhs = append(pp.Rhs, symOf(t))
		}
		out.Prods = append(out.Prods, pp)
	}
	out.NoParser = !ctx.HasParserRules
	// lexer DFAs
	names := make([]string, 0, len(ctx.LexerDFAs))
	for n := range ctx.LexerDFAs {
		names = append(names, n)
	}
	sort.Strings(names)
	for _, n := range names {
		m := ctx.LexerDFAs[n]
		if m == nil {
			continue
		}
		mm := Mode{Name: n, Index: m.Index}
		var nfaPending []*nfa.State
		for _, s := range m.DFA.States {
			ds := DState{Accept: s.Accept, NonGreedy: s.NonGreedy, Trans: [][3]int{}, Actions: [][2]int{}, ActModes: []string{}, NFA: []int{}, Pos: -1}
			for _, ns := range s.NFAStates {
				ds.NFA = append(ds.NFA, int(ns.ID))
				nfaPending = append(nfaPending, ns)
			}
			s.Transitions.ForEach(func(in any, to *dfa.State) {
				r := in.(rang3.Range)
				ds.Trans = append(ds.Trans, [3]int{int(r.B), int(r.E), int(to.ID)})
			})
			sort.Slice(ds.Trans, func(i, j int) bool { return ds.Trans[i][0] < ds.Trans[j][0] })
			if acts, ok := s.Data.(*mode.Actions); ok && acts != nil {
				ds.Pos = int(acts.Pos)
				for _, a := range acts.Actions {
					ds.Actions = append(ds.Actions, [2]int{int(a.Type), a.Terminal})
					ds.ActModes = append(ds.ActModes, a.Mode)
				}
			}
			mm.States = append(mm.States, ds)
		}
		mm.NFA = walkNFA(nfaPending)
		out.Modes = append(out.Modes, mm)
	}
	if !lalr || out.NoParser {
		out.Ok = true
		out.Stage = "done"
		return
	}
	out.Stage = "lalr"
	var t *lr1.ParserTable
	if wantTrace {
		traceMu.Lock()
		out.Trace = []TraceEv{}
		lr1.VerifTrace = func(ev lr1.VerifEvent) {
			out.Trace = append(out.Trace, TraceEv{ev.From, ev.Sym, ev.To, ev.New, ev.Changed, ev.Items})
		}
		func() {
			defer func() { lr1.VerifTrace = nil; traceMu.Unlock() }()
			t = lr1.ConstructLALR(g)
		}()
	} else {
		t = lr1.ConstructLALR(g)
	}
	out.Conflicts = t.HasConflicts
	for _, st := range t.States {
		s := State{Items: [][3]int{}, Actions: []Action{}, Trans: [][3]int{}}
		for _, it := range st.Items() {
			s.Items = append(s.Items, [3]int{it.Prod, it.Dot, it.Lookahead})
		}
		am := t.Actions(st)
		for _, term := range am.Terminals() {
			for _, a := range am.Get(term).Elements() {
				aa := Action{Term: term.Index, Kind: int(a.Type), Prods: []int{}}
				switch a.Type {
				case lr1.ActionShift:
					aa.Arg = a.ShiftState.Index
				case lr1.ActionReduce:
					aa.Arg = a.Prods[0].Index
				}
				for _, p := range a.Prods {
					aa.Prods = append(aa.Prods, p.Index)
				}
				s.Actions = append(s.Actions, aa)
			}
		}
		tm := t.Transitions(st)
		for _, in := range tm.Inputs() {
			sy := symOf(in)
			s.Trans = append(s.Trans, [3]int{sy.T, sy.I, tm.Get(in).Index})
		}
		out.States = append(out.States, s)
	}
	out.Ok = true
	out.Stage = "done"
	return
}

func main() {
	lalr := true
	args := os.Args[1:]
	if len(args) > 0 && args[0] == "-nolalr" {
		lalr = false
		args = args[1:]
	}
	if len(args) > 0 && args[0] == "-trace" {
		wantTrace = true
		args = args[1:]
	}
	var dirs []string
	if len(args) == 1 && strings.HasPrefix(args[0], "@") {
		data, _ := os.ReadFile(args[0][1:])
		for _, l := range strings.Split(string(data), "\n") {
			if strings.TrimSpace(l) != "" {
				dirs = append(dirs, strings.TrimSpace(l))
			}
		}
	} else {
		dirs = args
	}
	outs := make([]Out, len(dirs))
	var wg sync.WaitGroup
	sem := make(chan struct{}, 16)
	for i, d := range dirs {
		wg.Add(1)
		go func(i int, d string) {
			defer wg.Done()
			sem <- struct{}{}
			outs[i] = dumpOne(d, lalr)
			<-sem
		}(i, d)
	}
	wg.Wait()
	w := bufio.NewWriter(os.Stdout)
	enc := json.NewEncoder(w)
	for _, o := range outs {
		enc.Encode(o)
	}
	w.Flush()
}
