// smapt replays operation sequences on the real stablemap.Map / MultiMap and
// records what the map shows after every operation (spec/StableMapTrace.tla).
package main

import (
	"encoding/json"
	"os"

	"github.com/dcaiafa/lox/internal/base/stablemap"
)

type op struct {
	Op string `json:"op"` // put | add | remove | clear
	K  int    `json:"k"`
	V  int    `json:"v"`
}

type obs struct {
	Op   string `json:"op"`
	K    int    `json:"k"`
	V    int    `json:"v"`
	Keys []int  `json:"keys"`
	Vals []any  `json:"vals"`
	Len  int    `json:"len"`
	Has  []bool `json:"has"`
	Get  []any  `json:"get"`
}

type input struct {
	Universe []int  `json:"universe"`
	Seqs     [][]op `json:"seqs"`
}

func main() {
	var in input
	if err := json.NewDecoder(os.Stdin).Decode(&in); err != nil {
		panic(err)
	}
	out := make([][]obs, 0, len(in.Seqs))
	for _, seq := range in.Seqs {
		multi := false
		for _, o := range seq {
			if o.Op == "add" {
				multi = true
			}
		}
		var tr []obs
		if !multi {
			var m stablemap.Map[int, int]
			for _, o := range seq {
				switch o.Op {
				case "put":
					m.Put(o.K, o.V)
				case "remove":
					m.Remove(o.K)
				case "clear":
					m.Clear()
				}
				e := obs{Op: o.Op, K: o.K, V: o.V, Keys: append([]int{}, m.Keys()...), Vals: []any{}, Len: m.Len(), Has: []bool{}, Get: []any{}}
				for _, v := range m.Values() {
					e.Vals = append(e.Vals, []int{v})
				}
				// ForEach must agree with Keys/Values
				k := 0
				m.ForEach(func(key, val int) {
					if k >= len(e.Keys) || e.Keys[k] != key || e.Vals[k].([]int)[0] != val {
						e.Len = -1
					}
					k++
				})
				if k != len(e.Keys) {
					e.Len = -1
				}
				for _, u := range in.Universe {
					e.Has = append(e.Has, m.Has(u))
					v, ok := m.Get(u)
					if ok != m.Has(u) || v != m.GetOrZero(u) {
						e.Len = -2
					}
					if ok {
						e.Get = append(e.Get, []int{v})
					} else {
						e.Get = append(e.Get, []int{})
					}
				}
				tr = append(tr, e)
			}
		} else {
			var m stablemap.MultiMap[int, int]
			for _, o := range seq {
				switch o.Op {
				case "add":
					m.Add(o.K, o.V)
				case "remove":
					m.Remove(o.K)
				case "clear":
					m.Clear()
				}
				e := obs{Op: o.Op, K: o.K, V: o.V, Keys: append([]int{}, m.Keys()...), Vals: []any{}, Len: m.Len(), Has: []bool{}, Get: []any{}}
				for _, v := range m.Values() {
					e.Vals = append(e.Vals, append([]int{}, v.Elements()...))
				}
				for _, u := range in.Universe {
					e.Has = append(e.Has, m.Has(u))
					v, ok := m.Get(u)
					if ok {
						e.Get = append(e.Get, append([]int{}, v.Elements()...))
					} else {
						e.Get = append(e.Get, []int{})
					}
				}
				tr = append(tr, e)
			}
		}
		out = append(out, tr)
	}
	json.NewEncoder(os.Stdout).Encode(out)
}
