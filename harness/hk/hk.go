// Package hk is the harness kit compiled into every generated parser subject.
// It defines the token type, abstract value rendering and the event recorder.
package hk

type Token struct {
	Ty  int // terminal number (EOF=0, ERROR=1, user terminals from 2)
	Idx int // 0-based index of the token in the input
}

// Discard is what `x*!` asks of token elements: even terminal numbers are
// discarded (a rule the oracle can compute from the input alone).
func (t Token) Discard() bool { return t.Ty%2 == 0 }

// Node is embedded in every per-rule result type.
type Node struct {
	ID   int  // id of the action call that produced it (0-based)
	NTok int  // number of leaves (tokens / errors) below it
	Made bool // set by Rec.Act: distinguishes a produced value from the zero value when results are struct values
}

// Val is an abstract rendering of an action argument.
//
//	K = "t" token (I = input index, Ty = terminal)
//	K = "n" node (I = node id)
//	K = "l" list (L = elements)
//	K = "z" zero value
//	K = "x" Error (I = index of the offending token, Exp = expected terminals)
type Val struct {
	K   string `json:"k"`
	I   int    `json:"i"`
	Ty  int    `json:"ty"`
	L   []Val  `json:"l"`
	Exp []int  `json:"exp"`
	N   int    `json:"n"`
}

func TokVal(t Token) Val {
	if t.Ty == 0 && t.Idx == 0 {
		return Val{K: "z", L: []Val{}, Exp: []int{}}
	}
	return Val{K: "t", I: t.Idx, Ty: t.Ty, N: 1, L: []Val{}, Exp: []int{}}
}
func NodeVal(n *Node) Val {
	if n == nil {
		return Val{K: "z", L: []Val{}, Exp: []int{}}
	}
	return Val{K: "n", I: n.ID, N: n.NTok, L: []Val{}, Exp: []int{}}
}

// NodeValV renders a result that is a struct *value* (not a pointer): the zero value is "z".
func NodeValV(n Node) Val {
	if !n.Made {
		return Val{K: "z", L: []Val{}, Exp: []int{}}
	}
	return Val{K: "n", I: n.ID, N: n.NTok, L: []Val{}, Exp: []int{}}
}

func ErrVal(t Token, exp []int) Val {
	e := append([]int{}, exp...)
	return Val{K: "x", I: t.Idx, Ty: t.Ty, Exp: e, N: 1, L: []Val{}}
}
func ListVal(vs []Val) Val {
	n := 0
	for _, v := range vs {
		n += v.N
	}
	if vs == nil {
		vs = []Val{}
	}
	return Val{K: "l", L: vs, N: n, Exp: []int{}}
}

type Event struct {
	E    string `json:"e"`    // read | act | bounds | ret
	I    int    `json:"i"`    // read: input index ; bounds: begin idx
	Ty   int    `json:"ty"`   // read: terminal returned
	St   int    `json:"st"`   // read: top-of-stack state when visible, else -1
	Dep  int    `json:"dep"`  // read: stack depth when visible, else -1
	M    int    `json:"m"`    // act: method id
	Args []Val  `json:"args"` // act
	Ret  int    `json:"ret"`  // act: node id
	V    Val    `json:"v"`    // bounds: value
	End  int    `json:"end"`  // bounds: end idx
	Ok   bool   `json:"ok"`   // ret
}

type Budget struct{ Msg string }

// Rec records one parse run.
type Rec struct {
	toks     []int // terminal of the token with index i, as handed out by the lexer
	Events   []Event
	NextID   int
	Calls    int
	MaxCall  int
	Progress *int64
}

func (r *Rec) tick() {
	r.Calls++
	if r.Progress != nil {
		*r.Progress++
	}
	if r.MaxCall > 0 && r.Calls > r.MaxCall {
		panic(Budget{"budget"})
	}
}

func (r *Rec) Read(t Token, st, dep int) {
	r.tick()
	if t.Idx == len(r.toks) {
		r.toks = append(r.toks, t.Ty)
	}
	r.Events = append(r.Events, Event{E: "read", I: t.Idx, Ty: t.Ty, St: st, Dep: dep, Args: []Val{}})
}

func (r *Rec) Act(m int, n *Node, args ...Val) {
	r.tick()
	n.ID = r.NextID
	n.Made = true
	r.NextID++
	for _, a := range args {
		n.NTok += a.N
	}
	if args == nil {
		args = []Val{}
	}
	r.Events = append(r.Events, Event{E: "act", M: m, Args: args, Ret: n.ID})
}

func (r *Rec) Bounds(v Val, b, e Token) {
	r.tick()
	r.Events = append(r.Events, Event{E: "bounds", V: v, I: r.handedOut(b), End: r.handedOut(e), Args: []Val{}})
}

// handedOut returns the index of a token the lexer handed out; a token value that is not one of them (the zero Token,
// a token with another terminal at that index) is rendered as an impossible index so that the comparison sees it.
func (r *Rec) handedOut(t Token) int {
	if t.Idx >= 0 && t.Idx < len(r.toks) && r.toks[t.Idx] == t.Ty {
		return t.Idx
	}
	return -1000 - t.Idx
}

func (r *Rec) Return(ok bool) {
	r.Events = append(r.Events, Event{E: "ret", Ok: ok, Args: []Val{}})
}

// SliceLexer feeds a fixed terminal sequence, then EOF forever.
type SliceLexer struct {
	W    []int
	Pos  int
	R    *Rec
	Peek func() (int, int)
	Gate func(idx int) // optional scheduler gate (C18)
}

func (l *SliceLexer) ReadToken() (Token, int) {
	var t Token
	if l.Pos < len(l.W) {
		t = Token{Ty: l.W[l.Pos], Idx: l.Pos}
	} else {
		t = Token{Ty: 0, Idx: len(l.W)}
	}
	if l.Gate != nil {
		l.Gate(l.Pos)
	}
	if l.Pos < len(l.W) {
		l.Pos++
	}
	st, dep := -1, -1
	if l.Peek != nil {
		st, dep = l.Peek()
	}
	l.R.Read(t, st, dep)
	return t, t.Ty
}

// RunResult is what a subject's Run returns.
type RunResult struct {
	Ok     bool    `json:"ok"`
	Panic  string  `json:"panic"`
	Budget bool    `json:"budget"`
	Events []Event `json:"events"`
}

// PanicString renders a recovered panic value without importing fmt.
func PanicString(e any) string {
	switch v := e.(type) {
	case string:
		return v
	case error:
		return v.Error()
	}
	return "panic"
}

// FuncLexer feeds the parser from a callback: the real generated lexer under the
// reference driver (system composition, spec/Lox.tla). Next returns the terminal
// number the lexer produced (0 = EOF).
type FuncLexer struct {
	Next func() int
	N    int
	R    *Rec
	Peek func() (int, int)
}

func (l *FuncLexer) ReadToken() (Token, int) {
	ty := l.Next()
	t := Token{Ty: ty, Idx: l.N}
	if ty != 0 {
		l.N++
	}
	st, dep := -1, -1
	if l.Peek != nil {
		st, dep = l.Peek()
	}
	l.R.Read(t, st, dep)
	return t, ty
}
