#!/bin/sh
# run every registered check of a tier in sequence; print one line per property
tier=${1:-quick}
shift
props=${@:-$(python3 -c "import json;print(' '.join(c['property_id'] for c in json.load(open('/verif/MANIFEST.json'))['checks']))")}
for p in $props; do
  s=$(date +%s)
  ./check $p $tier > /tmp/sweep-$p.log 2>&1
  rc=$?
  e=$(date +%s)
  echo "$p rc=$rc $((e-s))s $(grep -c '^KNOWN-FINDING' /tmp/sweep-$p.log) known $(grep -c '^VIOLATION' /tmp/sweep-$p.log) viol :: $(tail -1 /tmp/sweep-$p.log | cut -c1-120)"
done
