#!/bin/sh
# Offline setup: warm the Go build cache for lox and the harness kit; check the tools are there.
set -e
export GOFLAGS=-mod=mod GOPROXY=off GOSUMDB=off GOTOOLCHAIN=local
cd /repo && go build -tags verif -o /dev/null ./cmd/lox
command -v java >/dev/null
test -f /opt/veriftools/tla/tla2tools.jar
python3 -c 'import json,sys'
echo setup ok
