#!/bin/bash
# like seedrun.sh, but on a private worktree copy of /repo (VERIF_REPO), so that it can run while other checks use /repo
id=$1; shift
export VERIF_EVIDENCE_DIR=/tmp/seed-evidence-$id
patch=${SEEDDIR:-/tmp/seeded-out}/$id/patch.diff
W=${SEEDREPO:-/tmp/seedrepo}
[ -d $W ] || git -C /repo worktree add -q --detach $W HEAD
git -C $W status --short | grep -q . && { echo "$W is dirty"; exit 2; }
git -C $W checkout -q --detach $(git -C /repo rev-parse HEAD)
git -C $W apply $patch || { echo "patch does not apply"; exit 2; }
for c in "$@"; do
  VERIF_REPO=$W ./check $c quick > /tmp/seedrun-$id-$c.log 2>&1
  echo "seed $id check $c rc=$? :: $(grep -c '^VIOLATION' /tmp/seedrun-$id-$c.log) violation lines :: $(tail -1 /tmp/seedrun-$id-$c.log | cut -c1-140)"
done
git -C $W checkout -q -- . ; git -C $W clean -fdq
