#!/bin/bash
# seedcheck.sh <id> <outdir> : confirm a seeded change (compiles, suite passes, demo fails with / passes without)
export GOFLAGS=-mod=mod GOPROXY=off GOSUMDB=off GOTOOLCHAIN=local
id=$1; out=${2:-/tmp/seeded-out/$id}
wt=/tmp/sv-$id
git -C /repo worktree remove --force $wt 2>/dev/null
git -C /repo worktree add -q --detach $wt HEAD || exit 2
cd $wt
echo "== demo without change"; bash $out/demo.sh $wt > /tmp/sv-$id-without.log 2>&1; echo "exit $?"
git apply $out/patch.diff || { echo "PATCH DOES NOT APPLY"; exit 2; }
echo "== build"; go build ./... && echo ok
echo "== go test"; go test -count=1 ./... 2>&1 | grep -v "no test files" | grep -v "^ok" ; echo "tests done"
echo "== demo with change"; bash $out/demo.sh $wt > /tmp/sv-$id-with.log 2>&1; echo "exit $?"
cd /; git -C /repo worktree remove --force $wt
