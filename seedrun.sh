#!/bin/bash
# seedrun.sh <seed-id> <check> [<check>...] : apply the seeded patch to /repo, run the checks (quick), restore /repo
id=$1; shift
export VERIF_EVIDENCE_DIR=/tmp/seed-evidence-$id
patch=${SEEDDIR:-/tmp/seeded-out}/$id/patch.diff
git -C /repo status --short | grep -q . && { echo "/repo is dirty"; exit 2; }
git -C /repo apply $patch || { echo "patch does not apply"; exit 2; }
for c in "$@"; do
  ./check $c quick > /tmp/seedrun-$id-$c.log 2>&1
  echo "seed $id check $c rc=$? :: $(grep -c '^VIOLATION' /tmp/seedrun-$id-$c.log) violation lines :: $(tail -1 /tmp/seedrun-$id-$c.log | cut -c1-140)"
done
git -C /repo checkout -- . ; git -C /repo clean -fdq -- . 2>/dev/null; git -C /repo status --short
