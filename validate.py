#!/usr/bin/env python3
"""Validate MANIFEST.json and evidence/*.json against the schemas (python3-vt has jsonschema)."""
import json, sys, glob, jsonschema
ok = True
try:
    jsonschema.validate(json.load(open('/verif/MANIFEST.json')), json.load(open('/root/.vp/MANIFEST.schema.json')))
except Exception as e:
    ok = False; print("MANIFEST:", str(e)[:500])
es = json.load(open('/root/.vp/EVIDENCE.schema.json'))
for f in sorted(glob.glob('/verif/evidence/C*.json')):
    try:
        jsonschema.validate(json.load(open(f)), es)
    except Exception as e:
        ok = False; print(f, str(e)[:500])
print("valid" if ok else "INVALID")
sys.exit(0 if ok else 1)
