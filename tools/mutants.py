#!/usr/bin/env python3
"""Mutation campaign: measures which small changes to lox the quick checks detect.

  mutants.py list   [--seed N] [--per-file K]        -> prints candidate mutants (json lines)
  mutants.py run    --out DIR [--seed N] [--per-file K] [--files REGEX] [--max M] [--jobs J]

A mutant is one textual edit (operator flip, off-by-one, boolean flip, break/continue swap, deleted
statement line) at one position of one non-test, non-generated source file.  For each sampled mutant:
  1. it is applied to a private worktree of /repo (never to /repo itself);
  2. `go build ./...` must pass (else: "nobuild", dropped);
  3. if a template or the generator's own grammar path is touched, checked-in generated files are
     regenerated with the mutant's own lox (as a developer would do);
  4. the unedited suite `go test ./...` must pass (else: "killed-by-suite", uninteresting);
  5. the quick checks mapped to the file are run with VERIF_REPO=<worktree> until one exits 1.
Result lines (json) go to DIR/results.jsonl: caught (by which check) / survived (all mapped checks exit 0)
/ infra (a check exited 2).  Survivors are triaged by hand: equivalent mutant, outside every property,
or a gap in a population.  Nothing here is a registered check; it is the measuring stick for them.
"""
import argparse, json, os, random, re, subprocess, sys, time, shutil, hashlib

VERIF = os.path.dirname(os.path.dirname(os.path.abspath(__file__)))
REPO = "/repo"
ENV = dict(os.environ, GOFLAGS="-mod=mod", GOPROXY="off", GOSUMDB="off", GOTOOLCHAIN="local")

FILEMAP = [
    (r"^internal/parsergen/lr1/", ["C04", "C01", "C05", "C10", "C09"]),
    (r"^internal/lexergen/rang3/", ["C15", "C02", "C10"]),
    (r"^internal/lexergen/", ["C10", "C02", "C08", "C07", "C11", "C15"]),
    (r"^internal/ast/(char_class)", ["C15", "C17", "C02", "C10"]),
    (r"^internal/ast/(lexer_|term_|macro_|mode)", ["C02", "C15", "C08", "C07", "C17", "C10", "C11"]),
    (r"^internal/ast/parser_", ["C01", "C03", "C17", "C04", "C16"]),
    (r"^internal/ast/", ["C17", "C19", "C12", "C01", "C02"]),
    (r"^internal/codegen/emit_parser", ["C01", "C03", "C09", "C16", "C05", "C18", "C06"]),
    (r"^internal/codegen/emit_lexer", ["C02", "C07", "C11", "C10", "C18", "C08"]),
    (r"^internal/codegen/emit_base", ["C19", "C18", "C06"]),
    (r"^internal/codegen/table", ["C10", "C01", "C02"]),
    (r"^internal/codegen/(assign_actions|parse_go)", ["C06", "C12", "C03"]),
    (r"^internal/codegen/", ["C12", "C13", "C19", "C14"]),
    (r"^cmd/lox/", ["C12", "C13"]),
    (r"^internal/parser/", ["C17", "C15", "C12", "C02"]),
    (r"^internal/base/", ["C13", "C17", "C04", "C10"]),
]

OPS = [
    (r" < ", " <= "), (r" <= ", " < "), (r" > ", " >= "), (r" >= ", " > "),
    (r" == ", " != "), (r" != ", " == "), (r" && ", " || "), (r" \|\| ", " && "),
    (r" \+ 1\b", ""), (r" - 1\b", ""), (r"\+1\b", ""), (r"-1\b", ""),
    (r"\btrue\b", "false"), (r"\bfalse\b", "true"),
    (r"\bbreak\b", "continue"), (r"\bcontinue\b", "break"),
    (r"\[0\]", "[1]"), (r"\+\+", "--"),
    (r" \+ ", " - "), (r" - ", " + "),
]
# whole-line deletions: simple statements (assignment / call / append) that are not declarations
DEL = re.compile(r"^\s+[A-Za-z_][\w.\[\]\(\)\*, ]*(\s(=|\+=|-=|\|=)\s.*|\(.*\))$")


def source_files():
    out = subprocess.run(["git", "-C", REPO, "ls-files"], capture_output=True, text=True).stdout.split()
    fs = []
    for f in out:
        if not f.endswith(".go") or f.endswith("_test.go") or f.endswith(".gen.go"):
            continue
        if f.startswith("examples/") or f.startswith("internal/tests") or f.startswith("internal/util"):
            continue
        if any(re.search(p, f) for p, _ in FILEMAP):
            fs.append(f)
    return fs


def candidates(f):
    text = open(os.path.join(REPO, f)).read()
    res = []
    off = 0
    for ln, line in enumerate(text.split("\n"), 1):
        s = line.strip()
        skip = s.startswith("//") or s.startswith("import") or s.startswith("package") or "panic(" in s \
            or "fmt.Errorf" in s or "Errorf(" in s or "Fprintf" in s or "assert" in s.lower()
        if not skip:
            for pat, rep in OPS:
                for m in re.finditer(pat, line):
                    # not inside a // comment
                    c = line.find("//")
                    if c != -1 and m.start() > c:
                        continue
                    res.append({"file": f, "line": ln, "start": off + m.start(), "end": off + m.end(),
                                "old": m.group(0), "new": rep, "kind": "op"})
            if DEL.match(line) and not s.startswith("return") and ":=" not in s and not s.endswith("{"):
                res.append({"file": f, "line": ln, "start": off, "end": off + len(line) + 1,
                            "old": line + "\n", "new": "", "kind": "del"})
        off += len(line) + 1
    return res


def sample(seed, per_file, files_re=None):
    rnd = random.Random(seed)
    out = []
    for f in source_files():
        if files_re and not re.search(files_re, f):
            continue
        c = candidates(f)
        rnd.shuffle(c)
        out += c[:per_file]
    rnd.shuffle(out)
    for i, m in enumerate(out):
        m["id"] = "m%03d-%s" % (i, hashlib.sha1(json.dumps(m, sort_keys=True).encode()).hexdigest()[:6])
    return out


def checks_for(f):
    for p, cs in FILEMAP:
        if re.search(p, f):
            return cs
    return []


def sh(cmd, cwd, timeout=1800):
    try:
        p = subprocess.run(cmd, cwd=cwd, env=ENV, shell=isinstance(cmd, str), capture_output=True, text=True, timeout=timeout)
        return p.returncode, p.stdout + p.stderr
    except subprocess.TimeoutExpired:
        return 124, "timeout"


def regen(wt):
    wt = os.path.abspath(wt)
    """rebuild the checked-in generated files with the mutant's own generator (two rounds: the front-end first)."""
    rc, out = sh("go build -o /tmp/mut-lox-%d ./cmd/lox" % os.getpid(), wt)
    if rc:
        return rc, out
    lox = "/tmp/mut-lox-%d" % os.getpid()
    for d in ["internal/parser", "examples/calc", "examples/jsonc", "examples/bolox"]:
        rc, out = sh([lox, d], wt, timeout=120)
        if rc:
            os.remove(lox)
            return rc, "regen %s: %s" % (d, out[-400:])
    os.remove(lox)
    return 0, ""


MAXCHECKS = [99]


def run_one(m, wt, outdir, tier="quick"):
    head = subprocess.run(["git", "-C", REPO, "rev-parse", "HEAD"], capture_output=True, text=True).stdout.strip()
    sh(["git", "checkout", "-q", "--detach", head], wt)
    sh("git checkout -q -- . && git clean -fdq", wt)
    p = os.path.join(wt, m["file"])
    text = open(p).read()
    assert text[m["start"]:m["end"]] == m["old"], "stale candidate"
    open(p, "w").write(text[:m["start"]] + m["new"] + text[m["end"]:])
    r = dict(m)
    rc, out = sh("go build ./...", wt)
    if rc:
        r["status"] = "nobuild"
        return r
    if m["file"].startswith("internal/"):
        rc, out = regen(wt)
        if rc:
            r["status"] = "regen-fails"   # the generator cannot rebuild its own front-end: a developer sees this at once
            r["detail"] = out[-300:]
            return r
    rc2, out2 = sh("go test -count=1 ./...", wt, timeout=900)
    if rc2:
        r["status"] = "killed-by-suite"
        return r
    diff = subprocess.run(["git", "-C", wt, "diff"], capture_output=True, text=True).stdout
    open(os.path.join(outdir, m["id"] + ".diff"), "w").write(diff)
    r["checks"] = {}
    r["status"] = "survived"
    if tier == "none":
        r["status"] = "suite-survivor"
        return r
    for c in checks_for(m["file"])[:MAXCHECKS[0]]:
        t0 = time.time()
        env = dict(ENV, VERIF_REPO=wt, VERIF_EVIDENCE_DIR=os.path.join(outdir, "evidence"))
        try:
            pr = subprocess.run([os.path.join(VERIF, "check"), c, tier], cwd=VERIF, env=env, capture_output=True, text=True, timeout=3000)
            rc, out = pr.returncode, pr.stdout + pr.stderr
        except subprocess.TimeoutExpired:
            rc, out = 124, "timeout"
        r["checks"][c] = {"rc": rc, "secs": int(time.time() - t0)}
        open(os.path.join(outdir, "%s.%s.log" % (m["id"], c)), "w").write(out[-20000:])
        if rc == 1:
            r["status"] = "caught"
            r["by"] = c
            v = [l for l in out.splitlines() if l.startswith("VIOLATION")]
            r["violation"] = v[0][:200] if v else ""
            break
        if rc != 0:
            r["status"] = "infra"   # keep going: another check may still catch it
    if r["status"] == "infra" and any(x["rc"] == 1 for x in r["checks"].values()):
        r["status"] = "caught"
    return r


def main():
    ap = argparse.ArgumentParser()
    ap.add_argument("cmd")
    ap.add_argument("--seed", type=int, default=1)
    ap.add_argument("--per-file", type=int, default=3)
    ap.add_argument("--files")
    ap.add_argument("--max", type=int, default=1000)
    ap.add_argument("--skip", type=int, default=0)
    ap.add_argument("--stride", type=int, default=1, help="take every stride-th mutant starting at --skip")
    ap.add_argument("--tier", default="quick", help="quick | thorough | none (stop after the suite)")
    ap.add_argument("--maxchecks", type=int, default=99, help="run at most this many of the mapped checks per mutant")
    ap.add_argument("--only", help="file with mutant ids (one per line or results.jsonl) to restrict to")
    ap.add_argument("--out", default="/tmp/mutants-out")
    ap.add_argument("--wt", default="/tmp/mutrepo")
    a = ap.parse_args()
    MAXCHECKS[0] = a.maxchecks
    ms = sample(a.seed, a.per_file, a.files)
    if a.only:
        ids = set()
        for l in open(a.only):
            l = l.strip()
            if l.startswith("{"):
                d = json.loads(l)
                if d.get("status") == "suite-survivor":
                    ids.add(d["id"])
            elif l:
                ids.add(l)
        ms = [m for m in ms if m["id"] in ids]
    ms = ms[a.skip::a.stride][:a.max]
    if a.cmd == "list":
        for m in ms:
            print(json.dumps(m))
        print(len(ms), "mutants", file=sys.stderr)
        return
    os.makedirs(a.out, exist_ok=True)
    if not os.path.isdir(a.wt):
        subprocess.run(["git", "-C", REPO, "worktree", "add", "-q", "--detach", a.wt, "HEAD"], check=True)
    done = set()
    rp = os.path.join(a.out, "results.jsonl")
    if os.path.exists(rp):
        done = {json.loads(l)["id"] for l in open(rp)}
    for m in ms:
        if m["id"] in done:
            continue
        t0 = time.time()
        try:
            r = run_one(m, a.wt, a.out, a.tier)
        except Exception as e:   # noqa
            r = dict(m, status="error", detail=repr(e))
        r["secs"] = int(time.time() - t0)
        with open(rp, "a") as f:
            f.write(json.dumps(r) + "\n")
        print(r["id"], r["file"], r["line"], repr(r["old"].strip()), "->", repr(r["new"]), r["status"], r.get("by", ""), r["secs"], flush=True)
    sh("git checkout -q -- . && git clean -fdq", a.wt)


if __name__ == "__main__":
    main()
